package worlds

import (
	"testing"

	"verifsim/sim"
)

// warmUpS: one short honest history on a shim, outside any bubble (sim.Spec.WarmUp): what the code under test
// initialises lazily for the whole process comes into being outside the bubbles of the plans.
func warmUpS(t *testing.T) {
	p := &SPlan{Keys: []SKey{{Role: "K0", Kind: "ed25519"}}, Init: []string{"K0"},
		Steps: []SStep{{Op: "list"}, {Op: "signers"}, {Op: "sign", Role: "K0"}, {Op: "forward", N: 200, Arg: ""}}}
	var sig []string
	runHistory(p, false, &sim.Outcome{}, &sig)
}

// Specs of the sequential shim world.
var Specs = []*sim.Spec{
	{Property: "C07", World: "S", WarmUp: warmUpS, Generate: genS("C07"), Execute: execS, Shrink: shrinkS},
	{Property: "C08", World: "S", WarmUp: warmUpS, Generate: genS("C08"), Execute: execS, Shrink: shrinkS},
	{Property: "C09", World: "S", WarmUp: warmUpS, Generate: genS("C09"), Execute: execS, Shrink: shrinkS},
	{Property: "C10", World: "S", WarmUp: warmUpS, Generate: genS("C10"), Execute: execS, Shrink: shrinkS},
}
