#!/bin/bash
# usage: seedcheck.sh <name> <property> <patch> <demo_test.go> <demo_pkg_dir> [check ids...]
# Confirms a seeded change (compiles, existing suite passes, demonstration fails with it and passes without it)
# in a scratch worktree outside /repo and /verif, runs the named quick checks against it, and stores
# patch + demonstration + meta.json under /verif/seeded/<name>/. The worktree is removed afterwards.
set -u
name=$1; prop=$2; patch=$(readlink -f "$3"); demo=$(readlink -f "$4"); pkg=$5; shift 5
checks=${*:-$prop}
export GOFLAGS=-mod=mod GOPROXY=off GOSUMDB=off GOTOOLCHAIN=local
W=$(mktemp -d /tmp/seedchk.XXXXXX)
ERRF=$(mktemp /tmp/seedchk-err.XXXXXX)   # (one per run: two confirmations may run at the same time)
H=$(printf '%s' "$(readlink -f "$W")" | sha1sum | cut -c1-10)
out=/verif/seeded/$name
mkdir -p "$out"
git -C /repo worktree add -q --detach "$W" "${SEED_BASE:-HEAD}" || exit 3   # SEED_BASE: the commit a stored change was written for (meta.json base_commit)
cleanup() { git -C /repo worktree remove --force "$W" 2>/dev/null; rm -rf "$W" "$ERRF"; rm -rf /verif/build/bin/*-scratch-$H /verif/build/mod-*-scratch-$H /verif/build/overlay-*-scratch-$H 2>/dev/null; }
trap cleanup EXIT
cd "$W"
demoname=seed_demo_test.go
cp "$demo" "$W/$pkg/$demoname"
# the copied demo may carry a first-line comment only; make sure it is a Go file
base_demo=$( (go test -vet=off -count=1 "./$pkg/" 2>&1; echo "exit=$?") | tail -5)
base_ok=$(echo "$base_demo" | grep -c "exit=0")
if ! git apply "$patch"; then echo "PATCH DOES NOT APPLY"; exit 3; fi
build=$( (go build ./... 2>&1; echo "exit=$?") | tail -3)
build_ok=$(echo "$build" | grep -c "exit=0")
mut_demo=$( (go test -vet=off -count=1 "./$pkg/" 2>&1; echo "exit=$?") | tail -8)
mut_fail=$(echo "$mut_demo" | grep -c "exit=1")
rm -f "$W/$pkg/$demoname"
suite=$( (go test -vet=off -count=1 ./... 2>&1; echo "exit=$?") | grep -v "no test files" | tail -25)
suite_ok=$(echo "$suite" | grep -c "exit=0")
echo "demo on unchanged code passes: $base_ok | change builds: $build_ok | demo with change fails: $mut_fail | existing suite with change passes: $suite_ok"
results=""
for c in $checks; do
  o=$(VERIF_REPO="$W" /verif/check "$c" 2>"$ERRF" | grep -E "^(DETAIL|VIOLATION|KNOWN-FINDING)" | head -2 | cut -c1-500)
  rc=${PIPESTATUS[0]}
  code=$(VERIF_REPO="$W" true; echo $rc)
  echo "check $c -> $( [ -n "$o" ] && echo "$o" || tail -1 "$ERRF" | cut -c1-200 )"
  results="$results$c: $( [ -n "$o" ] && echo "$o" | head -1 | cut -c1-300 || echo 'no violation reported' )\n"
done
cp "$patch" "$out/patch.diff"
cp "$demo" "$out/demo_test.go.txt"
printf '%b' "$results" > /tmp/seedchk.results.$$
python3 - "$out/meta.json" "$name" "$prop" "$pkg" "$base_ok" "$build_ok" "$mut_fail" "$suite_ok" "$checks" /tmp/seedchk.results.$$ <<EOF
import json,sys
out,name,prop,pkg,base_ok,build_ok,mut_fail,suite_ok,checks,resfile=sys.argv[1:11]
res = open(resfile, errors="replace").read()
try:
    old=json.load(open(out))
except Exception:
    old={}
old.update({"name":name,"breaks_property":prop,"demo_package_dir":pkg,
 "confirmed":{"demo_passes_on_unchanged_code":base_ok=="1","change_builds":build_ok=="1","demo_fails_with_change":mut_fail=="1","existing_suite_passes_with_change":suite_ok=="1"},
 "ran":"tools/seedcheck.sh (scratch worktree of /repo HEAD under /tmp, removed afterwards): go build ./...; go test ./%s/ with and without the change; go test ./... with the change; /verif/check <id> with VERIF_REPO pointing at the changed worktree" % pkg,
 "checks_run":checks.split(), "check_results":[l for l in res.split("\n") if l]})
json.dump(old,open(out,"w"),indent=1)
EOF
rm -f /tmp/seedchk.results.$$
