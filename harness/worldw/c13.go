package worldw

import (
	"bytes"
	"crypto/rand"
	"crypto/x509"
	"encoding/hex"
	"encoding/json"
	"encoding/pem"
	"fmt"
	"net"
	"os"
	"path/filepath"
	"runtime/debug"
	"strings"
	"sync"
	"testing"
	"time"

	"github.com/theparanoids/ysshra/agent/yubiagent"
	"golang.org/x/crypto/ssh"
	"golang.org/x/crypto/ssh/agent"

	"verifsim/keys"
	"verifsim/sim"
	"verifsim/simconn"
)

// WOp is one operation issued through the yubiagent client.
type WOp struct {
	Op       string `json:"op"`
	KeyKind  string `json:"key_kind,omitempty"`
	KeyLabel string `json:"key_label,omitempty"`
	Cert     bool   `json:"cert,omitempty"`
	DataLen  int    `json:"data_len,omitempty"`
	Flags    uint32 `json:"flags,omitempty"`
	Comment  string `json:"comment,omitempty"`
	Lifetime uint32 `json:"lifetime,omitempty"`
	Confirm  bool   `json:"confirm,omitempty"`
	Pass     string `json:"pass,omitempty"`
	Slot     string `json:"slot,omitempty"`
	Code     int    `json:"code,omitempty"`
	Raw      string `json:"raw,omitempty"`
	Fail     string `json:"fail,omitempty"` // scripted failure text of the served agent ("" = success)
}

// C13Plan is one client session.
type C13Plan struct {
	Ops     []WOp `json:"ops"`
	RChunks []int `json:"rchunks,omitempty"`
	WChunks []int `json:"wchunks,omitempty"`
	// Slots: "" (stub served agent) or "real" (the concrete server with a stub PIV tool)
	Slots     string `json:"slots,omitempty"`
	Remote    bool   `json:"remote,omitempty"`
	PivOutput string `json:"piv_output,omitempty"`
	// PivStderr: what the tool writes to its standard error stream (diagnostics, possibly looking like status lines)
	PivStderr string   `json:"piv_stderr,omitempty"`
	PivExit   int      `json:"piv_exit,omitempty"`
	BigCert   bool     `json:"big_cert,omitempty"`   // the served slot certificate is a large RSA-4096 one
	StubSlots []string `json:"stub_slots,omitempty"` // slots the stub served agent reports (nil: 9a, 9c)
	PEMNoise  bool     `json:"pem_noise,omitempty"`  // the PIV tool prints text before the PEM block and blank lines after it
	// SlowS > 0: the "slow served agent" session instead of Ops (see slowSessionC13): the SlowAt-th of NSlow raw
	// relays takes SlowS seconds of simulated time in the served agent, which answers honestly in the end
	SlowS  int `json:"slow_s,omitempty"`
	SlowAt int `json:"slow_at,omitempty"`
	NSlow  int `json:"n_slow,omitempty"`
}

var c13Ops = []string{"list", "sign", "add", "remove", "removeall", "lock", "unlock", "signers", "addhardcert", "addhardcert_legacy",
	"listslots", "readslot", "attestslot", "wait", "forward", "addsmartcard", "removesmartcard", "signvia"}

var oddComments = []string{"", "plain", "üñí¢ødé ✓", "with \"quotes\" and \\ backslash", "tab\there", "日本語のコメント", "SUCCESS?", "a,b,c"}
var failTexts = []string{"scripted failure", "agent: locked", "no such key ünï", "x", "failure with \"quotes\"", "SUCCESSFUL NOT", " leading space"}

func genPivOutput(r *sim.Rng) (string, int) {
	switch r.Intn(8) {
	case 0:
		return "", 0
	case 1:
		return "Failed to connect to yubikey.\n", 1
	}
	lines := []string{"Version:\t5.4.3", "Serial Number:\t12345678", "CHUID:\t3019d4e739da739ced39ce739d836858210842108421c84210c3eb34109a", "CCC:\tNo data available"}
	n := r.Range(0, 5)
	for i := 0; i < n; i++ {
		switch r.Intn(10) {
		case 0:
			lines = append(lines, "Slot 9") // six characters
		case 1:
			lines = append(lines, "Slot")
		case 2:
			lines = append(lines, "Slot ")
		case 3:
			lines = append(lines, "Slotted output")
		default:
			slot := []string{"9a", "9c", "9d", "9e", "f9", "82", "95"}[r.Intn(7)]
			lines = append(lines, "Slot "+slot+":\t", "\tAlgorithm:\tECCP256", "\tSubject DN:\tCN=x")
		}
	}
	if r.Bool(0.1) {
		// a very long line before the slots (e.g. a dumped object): line readers with a token limit stop here
		lines = append([]string{"Blob:\t" + strings.Repeat("ab", 40000)}, lines...)
	}
	sep := "\n"
	if r.Bool(0.15) {
		sep = "\r\n" // the statement counts characters of lines split at the newline: a carriage return is a character
	}
	out := strings.Join(lines, sep)
	if r.Bool(0.8) {
		out += sep
	}
	if r.Bool(0.1) && len(out) > 3 {
		out = out[:r.Range(1, len(out)-1)] // truncated output
	}
	return out, 0
}

func genC13(r *sim.Rng, tier string) any {
	p := &C13Plan{}
	if r.Bool(0.05) {
		p.NSlow = r.Range(2, 5)
		p.SlowAt = r.Intn(p.NSlow - 1)
		p.SlowS = pick(r, []int{2, 16, 31, 61, 601, 3601})
		p.RChunks, p.WChunks = nil, nil
		return p
	}
	if r.Bool(0.3) {
		p.Slots = "real"
		p.Remote = r.Bool(0.25)
		p.PivOutput, p.PivExit = genPivOutput(r)
		if r.Bool(0.3) {
			p.PivStderr = pick(r, []string{"Slot 9d:\tdiagnostic line on stderr\n", "warning: reader busy\n", "Slot 82 is empty\nSlot 9e: not read\n", "Slotted\n"})
		}
	}
	p.BigCert = r.Bool(0.3)
	p.PEMNoise = r.Bool(0.3)
	switch r.Intn(5) {
	case 0:
		p.StubSlots = []string{}
	case 1:
		p.StubSlots = []string{"9a"}
	case 2:
		p.StubSlots = []string{"f9", "9a", "82", "9e", "9c", "95"}
	}
	n := r.Range(2, 14)
	for i := 0; i < n; i++ {
		op := WOp{Op: c13Ops[r.Intn(len(c13Ops))]}
		if p.Slots == "real" && r.Bool(0.6) {
			op.Op = []string{"listslots", "readslot", "attestslot"}[r.Intn(3)]
		}
		if p.Slots == "real" && !p.Remote && r.Bool(0.02) {
			op.Op = "slotpair"
		}
		op.KeyKind = keys.AllKinds[r.Intn(len(keys.AllKinds))]
		op.KeyLabel = fmt.Sprintf("c13-%d", r.Intn(3))
		op.Cert = r.Bool(0.4)
		switch r.Intn(5) {
		case 0:
			op.DataLen = 0
		case 1:
			op.DataLen = r.Range(1, 64)
		case 2:
			op.DataLen = r.Range(65, 4096)
		case 3:
			op.DataLen = 65536
		default:
			op.DataLen = r.Range(1, 300)
		}
		op.Flags = []uint32{0, 2, 4, 6, 1}[r.Intn(5)]
		op.Comment = oddComments[r.Intn(len(oddComments))]
		if r.Bool(0.5) {
			op.Lifetime = uint32([]int{1, 60, 3600, 1 << 31, 4294967295}[r.Intn(5)])
		}
		op.Confirm = r.Bool(0.3)
		op.Pass = hex.EncodeToString([][]byte{{}, []byte("pw"), []byte("pässwörd with spaces"), {0, 1, 2, 255, 0x80, 0xfe}, {0xff}, []byte("a\x00b")}[r.Intn(6)])
		op.Slot = []string{"9a", "9c", "f9", "", "a-very-long-slot-name", "9ä", "9A", "9C", "F9", "9a "}[r.Intn(10)]
		op.Code = r.Intn(256)
		raw := append([]byte{[]byte{0, 2, 5, 7, 20, 21, 26, 28, 36, 40, 99, 200, 255}[r.Intn(13)]}, r.Bytes(r.Intn(64))...)
		op.Raw = hex.EncodeToString(raw)
		if r.Bool(0.25) {
			op.Fail = failTexts[r.Intn(len(failTexts))]
		}
		p.Ops = append(p.Ops, op)
		if p.Slots == "real" && op.Op == "listslots" && r.Bool(0.4) {
			out, exit := genPivOutput(r)
			p.Ops = append(p.Ops, WOp{Op: "pivchange", Comment: out, Code: exit}, WOp{Op: "listslots"})
		}
	}
	switch r.Intn(4) {
	case 0:
		p.RChunks = []int{1}
	case 1:
		for i := 0; i < r.Range(1, 5); i++ {
			p.RChunks = append(p.RChunks, r.Range(1, 16))
		}
	}
	switch r.Intn(4) {
	case 0:
		p.WChunks = []int{1}
	case 1:
		for i := 0; i < r.Range(1, 5); i++ {
			p.WChunks = append(p.WChunks, r.Range(1, 32))
		}
	}
	return p
}

func shrinkC13(raw json.RawMessage) []json.RawMessage {
	var p C13Plan
	if json.Unmarshal(raw, &p) != nil {
		return nil
	}
	var out []json.RawMessage
	emit := func(q C13Plan) { b, _ := json.Marshal(q); out = append(out, b) }
	for _, rg := range sim.DropEach(len(p.Ops)) {
		q := p
		q.Ops = append(append([]WOp(nil), p.Ops[:rg[0]]...), p.Ops[rg[1]:]...)
		if len(q.Ops) > 0 {
			emit(q)
		}
	}
	if len(p.RChunks) > 0 {
		q := p
		q.RChunks = nil
		emit(q)
	}
	if len(p.WChunks) > 0 {
		q := p
		q.WChunks = nil
		emit(q)
	}
	for i, op := range p.Ops {
		if op.DataLen > 8 {
			q := p
			q.Ops = append([]WOp(nil), p.Ops...)
			q.Ops[i].DataLen = 8
			emit(q)
		}
		if op.Fail != "" {
			q := p
			q.Ops = append([]WOp(nil), p.Ops...)
			q.Ops[i].Fail = ""
			emit(q)
		}
	}
	return out
}

func opKey(op WOp) (ssh.PublicKey, *ssh.Certificate) {
	if op.Cert {
		c := keys.Cert(keys.CertSpec{KeyKind: op.KeyKind, KeyLabel: op.KeyLabel, CALabel: "w13", KeyID: "kid " + op.Comment,
			Serial: uint64(op.DataLen), Principals: []string{"p1", "p2"}, ValidBefore: ssh.CertTimeInfinity})
		return c, c
	}
	return keys.Pub(op.KeyKind, op.KeyLabel), nil
}

func opData(op WOp) []byte {
	b := make([]byte, op.DataLen)
	for i := range b {
		b[i] = byte(i*31 + op.DataLen)
	}
	return b
}

// expectedSlots is the harness's reading of the statement. exact=false when a
// 'Slot' line is too short to have two characters after "Slot ".
func expectedSlots(output string) (slots []string, exact bool) {
	exact = true
	for _, line := range strings.Split(output, "\n") {
		if !strings.HasPrefix(line, "Slot") {
			continue
		}
		if len(line) < 7 {
			exact = false
			continue
		}
		slots = append(slots, line[5:7])
	}
	return
}

func tmpRoot() string {
	if d := os.Getenv("VERIF_TMP"); d != "" {
		return d
	}
	return os.TempDir()
}

// execC13 runs the session inside a bubble: there is no clock in this property, but the bubble detects exactly
// when every goroutine of the session is blocked for ever (an operation that never completes).
func execC13(t *testing.T, raw json.RawMessage) *sim.Outcome {
	var o *sim.Outcome
	fail := sim.InBubble(t, func() { o = sessionC13(t, raw) })
	if o == nil {
		o = &sim.Outcome{}
	}
	if fail != "" && sim.LeftoverOnly(fail) {
		// the session ran to its end (see sim.LeftoverOnly): its verdicts stand
		o.Probe("goroutines_left_after_the_last_operation")
	} else if fail != "" {
		o.All = nil
		failBubble(o, fail)
		o.Signature = "stalled"
	}
	return o
}

// slowSessionC13: a served agent that takes its time over one request (a touch that is waited for) and answers it
// honestly in the end. The caller of that request gets the served answer - or an error, if the client gave up on it;
// every other request gets its own answer or an error (a client that gave up may refuse to go on with the connection),
// never the answer to another request.
func slowSessionC13(p *C13Plan) *sim.Outcome {
	o := &sim.Outcome{}
	st := stubFixture()
	st.slowOn = map[int]time.Duration{p.SlowAt: time.Duration(p.SlowS) * time.Second}
	a, b := net.Pipe()
	done := make(chan struct{})
	var srvPanic any
	go func() {
		defer close(done)
		defer func() {
			srvPanic = recover()
			b.Close()
		}()
		yubiagent.ServeAgent(st, b)
	}()
	cli, err := yubiagent.NewClientFromConn(a)
	if err != nil {
		o.Fail("harness.setup", "client", 0, "%v", err)
		return o
	}
	o.Fault("served_agent_slow")
	gaveUp := false
	for i := 0; i < p.NSlow; i++ {
		// raw relays, slot listings and slot reads in turn (which one is slow depends on SlowAt and NSlow)
		kind := []string{"forward", "readslot", "listslots"}[(i+p.NSlow)%3]
		req := append([]byte{200}, []byte(fmt.Sprintf("raw request %d of a session with a slow agent", i))...)
		var got []byte
		var gotCert *x509.Certificate
		var gotSlots []string
		var cerr error
		var cpanic any
		func() {
			defer func() { cpanic = recover() }()
			switch kind {
			case "forward":
				got, cerr = cli.Forward(req)
			case "readslot":
				gotCert, cerr = cli.ReadSlot("9a")
			case "listslots":
				gotSlots, cerr = cli.ListSlots()
			}
		}()
		tag := fmt.Sprintf("op %d %s (request %d of %d, the served agent takes %d s over request %d)", i, kind, i, p.NSlow, p.SlowS, p.SlowAt)
		agrees := false
		switch kind {
		case "forward":
			agrees = bytes.Equal(got, echoReply(req))
		case "readslot":
			agrees = gotCert != nil && bytes.Equal(gotCert.Raw, st.cert.Raw)
		case "listslots":
			agrees = strings.Join(gotSlots, "|") == strings.Join(st.slots, "|")
		}
		switch {
		case cpanic != nil:
			o.Fail("C13.no_crash", "client_panic:"+kind, i, "%s: client panicked: %v", tag, cpanic)
			return o
		case cerr != nil && i == p.SlowAt:
			gaveUp = true
			o.Probe("client_gave_up_on_slow_request")
		case cerr != nil && gaveUp:
			o.Probe("request_refused_after_giving_up")
		case cerr != nil:
			o.Fail("C13.result", "spurious_error:"+kind, i, "%s: the served agent answered but the caller got error %v", tag, cerr)
		case !agrees:
			o.Fail("C13.result", "other_requests_answer:"+kind, i, "%s: the caller received something else than the served agent's answer to this request (raw %q, slots %q, certificate %v)", tag, trunc(got), gotSlots, gotCert != nil)
		default:
			o.Probe("op_agrees")
		}
		if o.All != nil {
			break
		}
	}
	// (the clock of the bubble stops when its root returns: let the slow call finish first)
	time.Sleep(time.Duration(2*p.SlowS+60) * time.Second)
	a.Close()
	b.Close()
	<-done
	if srvPanic != nil && o.All == nil {
		o.Fail("C13.no_crash", "server_panic:slow", 0, "the server side crashed: %v", srvPanic)
	}
	o.Signature = fmt.Sprintf("slow:%d/%d/%d/%v", p.SlowS, p.SlowAt, p.NSlow, gaveUp)
	return o
}

func sessionC13(t *testing.T, raw json.RawMessage) *sim.Outcome {
	o := &sim.Outcome{}
	var p C13Plan
	if err := json.Unmarshal(raw, &p); err != nil {
		o.Fail("harness.plan", "unmarshal", 0, "%v", err)
		return o
	}
	if p.SlowS > 0 {
		return slowSessionC13(&p)
	}
	keys.ResetRSA()
	st := stubFixture()
	st.keys = append(st.keys, &agent.Key{Format: "ssh-rsa", Blob: keys.Pub(keys.KindRSA, "c13-served-rsa").Marshal(), Comment: "rsa key"})
	if p.BigCert {
		st.cert, _ = x509.ParseCertificate(bigCertDER())
	}
	if p.StubSlots != nil {
		st.slots = p.StubSlots
	}
	var served yubiagent.YubiAgent = st
	var pivLog string
	setPiv := func(string, int) {}
	setDelay := func(string) {}
	if p.Slots == "real" {
		dir, err := os.MkdirTemp(tmpRoot(), "piv-")
		if err != nil {
			o.Fail("harness.tmp", "mkdtemp", 0, "%v", err)
			return o
		}
		defer os.RemoveAll(dir)
		tool := filepath.Join(dir, "yubico-piv-tool")
		pivLog = filepath.Join(dir, "invocations")
		outFile := filepath.Join(dir, "status.out")
		exitFile := filepath.Join(dir, "status.exit")
		certFile := filepath.Join(dir, "cert.pem")
		setPiv = func(out string, exit int) {
			os.WriteFile(outFile, []byte(out), 0o644)
			os.WriteFile(exitFile, []byte(fmt.Sprint(exit)), 0o644)
		}
		setPiv(p.PivOutput, p.PivExit)
		errFile := filepath.Join(dir, "status.err")
		os.WriteFile(errFile, []byte(p.PivStderr), 0o644)
		pemBytes := pem.EncodeToMemory(&pem.Block{Type: "CERTIFICATE", Bytes: testCertDER()})
		if p.PEMNoise {
			pemBytes = append(append([]byte("Certificate for the slot:\n\n"), pemBytes...), []byte("\n\n  \n")...)
		}
		os.WriteFile(certFile, pemBytes, 0o644)
		attestFile := filepath.Join(dir, "attest.pem")
		attBytes := pem.EncodeToMemory(&pem.Block{Type: "CERTIFICATE", Bytes: attestCertDER()})
		if p.PEMNoise {
			attBytes = append(append([]byte("Attestation for the slot:\n\n"), attBytes...), []byte("\n\n  \n")...)
		}
		os.WriteFile(attestFile, attBytes, 0o644)
		delayFile := filepath.Join(dir, "delay")
		os.WriteFile(delayFile, []byte("0"), 0o644)
		setDelay = func(d string) { os.WriteFile(delayFile, []byte(d), 0o644) }
		script := fmt.Sprintf("#!/bin/sh\necho \"$@\" >> %s\ncase \"$2\" in\n status) cat %s >&2; cat %s; exit $(cat %s);;\n read-certificate|attest) d=$(cat %s); [ \"$d\" != 0 ] && sleep $d; if [ \"$4\" = \"9a\" ] || [ \"$4\" = \"9c\" ]; then if [ \"$2\" = attest ]; then cat %s; else cat %s; fi; exit 0; else echo 'no such slot' >&2; exit 1; fi;;\nesac\nexit 2\n",
			pivLog, errFile, outFile, exitFile, delayFile, attestFile, certFile)
		if err := os.WriteFile(tool, []byte(script), 0o755); err != nil {
			o.Fail("harness.tmp", "tool", 0, "%v", err)
			return o
		}
		served = yubiagent.VerifNewServer(st, tool, p.Remote)
	}
	a, b := net.Pipe()
	srvConn := &simconn.Chunked{Conn: b, ReadSizes: p.WChunks, WriteSizes: p.RChunks}
	cliConn := &simconn.Chunked{Conn: a, ReadSizes: p.RChunks, WriteSizes: p.WChunks}
	done := make(chan struct{})
	var srvErr error
	var srvPanic any
	var srvStack []byte
	go func() {
		defer close(done)
		defer func() {
			if r := recover(); r != nil {
				srvPanic = r
				srvStack = debug.Stack()
				b.Close()
			}
		}()
		srvErr = yubiagent.ServeAgent(served, srvConn)
		b.Close() // the owner of a served connection closes it when service ends
	}()
	cli, err := yubiagent.NewClientFromConn(cliConn)
	if err != nil {
		o.Fail("harness.setup", "client", 0, "%v", err)
		return o
	}
	var sig []string
	ended := false
	for i, op := range p.Ops {
		if ended {
			break
		}
		if op.Op == "pivchange" {
			// the device changes between two invocations of the tool (key generated, YubiKey pulled)
			p.PivOutput, p.PivExit = op.Comment, op.Code
			setPiv(p.PivOutput, p.PivExit)
			o.Probe("piv_tool_output_changed_between_calls")
			continue
		}
		if op.Op == "slotpair" {
			// two clients on two connections of the same server ask for the certificate and for the attestation of one
			// slot at the same time (the tool takes a moment: the two invocations overlap); each gets its own answer
			if p.Slots != "real" || p.Remote {
				continue
			}
			a2, b2 := net.Pipe()
			done2 := make(chan struct{})
			go func() {
				defer close(done2)
				defer func() { recover(); b2.Close() }()
				yubiagent.ServeAgent(served, b2)
			}()
			cli2, err2 := yubiagent.NewClientFromConn(a2)
			if err2 != nil {
				o.Fail("harness.setup", "client2", i, "%v", err2)
				return o
			}
			setDelay("0.15")
			var c1, c2 *x509.Certificate
			var e1, e2 error
			var wg sync.WaitGroup
			wg.Add(2)
			go func() {
				defer wg.Done()
				defer func() {
					if r := recover(); r != nil {
						e1 = fmt.Errorf("panic: %v", r)
					}
				}()
				c1, e1 = cli.ReadSlot(op.Slot)
			}()
			go func() {
				defer wg.Done()
				defer func() {
					if r := recover(); r != nil {
						e2 = fmt.Errorf("panic: %v", r)
					}
				}()
				c2, e2 = cli2.AttestSlot(op.Slot)
			}()
			wg.Wait()
			setDelay("0")
			a2.Close()
			<-done2
			o.Probe("slot_operations_in_parallel")
			tag := fmt.Sprintf("op %d slotpair %s", i, op.Slot)
			if op.Slot == "9a" || op.Slot == "9c" {
				if e1 != nil || c1 == nil || !bytes.Equal(c1.Raw, testCertDER()) {
					o.Fail("C13.slots", "parallel_read", i, "%s: ReadSlot (while AttestSlot ran on another connection): err=%v, want the slot's certificate", tag, e1)
				}
				if e2 != nil || c2 == nil || !bytes.Equal(c2.Raw, attestCertDER()) {
					o.Fail("C13.slots", "parallel_attest", i, "%s: AttestSlot (while ReadSlot ran on another connection): err=%v, want the slot's attestation", tag, e2)
				}
			} else if e1 == nil || e2 == nil {
				o.Fail("C13.slots", "slot_error_lost", i, "%s: the PIV tool failed for this slot but a caller got no error (read err=%v, attest err=%v)", tag, e1, e2)
			}
			sig = append(sig, "slotpair")
			continue
		}
		nCalls := len(st.calls)
		realSlot := p.Slots == "real" && (op.Op == "listslots" || op.Op == "readslot" || op.Op == "attestslot")
		if realSlot {
			op.Fail = ""
		}
		delete(st.failOn, nCalls)
		st.smartcard = op.Op == "addsmartcard" || op.Op == "removesmartcard"
		if op.Fail != "" {
			st.failOn[nCalls] = op.Fail
		}
		pub, cert := opKey(op)
		data := opData(op)
		tag := fmt.Sprintf("op %d %s", i, op.Op)
		var cerr error
		var cpanic any
		var gotKeys []*agent.Key
		var gotSig *ssh.Signature
		var gotSigners []ssh.Signer
		var gotSlots []string
		var gotCert *x509.Certificate
		var gotBytes []byte
		var viaIdx int
		var viaKey []byte
		var viaFlags uint32
		viaNoAlgo := false
		func() {
			defer func() {
				if r := recover(); r != nil {
					cpanic = r
				}
			}()
			switch op.Op {
			case "list":
				gotKeys, cerr = cli.List()
			case "sign":
				gotSig, cerr = cli.SignWithFlags(pub, data, agent.SignatureFlags(op.Flags))
			case "add":
				cerr = cli.Add(agent.AddedKey{PrivateKey: keys.AgentPriv(op.KeyKind, op.KeyLabel), Certificate: cert, Comment: op.Comment,
					LifetimeSecs: op.Lifetime, ConfirmBeforeUse: op.Confirm})
			case "remove":
				cerr = cli.Remove(pub)
			case "removeall":
				cerr = cli.RemoveAll()
			case "lock":
				cerr = cli.Lock(passBytes(op.Pass))
			case "unlock":
				cerr = cli.Unlock(passBytes(op.Pass))
			case "signers":
				gotSigners, cerr = cli.Signers()
			case "addhardcert":
				cerr = cli.AddHardCert(pub, op.Comment)
			case "addhardcert_legacy":
				gotBytes, cerr = cli.Forward(append([]byte{31}, pub.Marshal()...))
			case "listslots":
				gotSlots, cerr = cli.ListSlots()
			case "readslot":
				gotCert, cerr = cli.ReadSlot(op.Slot)
			case "attestslot":
				gotCert, cerr = cli.AttestSlot(op.Slot)
			case "wait":
				cerr = cli.Wait(byte(op.Code))
			case "forward":
				rawReq, _ := hex.DecodeString(op.Raw)
				gotBytes, cerr = cli.Forward(rawReq)
			case "signvia":
				// sign through a signer obtained from the client, with the signature algorithm an ssh client would
				// negotiate for that key (rsa-sha2-256 / rsa-sha2-512 for RSA keys)
				var sgs []ssh.Signer
				sgs, cerr = cli.Signers()
				if cerr != nil || len(sgs) == 0 {
					break
				}
				viaIdx = op.Code % len(sgs)
				sg := sgs[viaIdx]
				viaKey = sg.PublicKey().Marshal()
				algo := map[uint32]string{2: ssh.KeyAlgoRSASHA256, 4: ssh.KeyAlgoRSASHA512}[op.Flags]
				if sg.PublicKey().Type() != ssh.KeyAlgoRSA {
					algo = ""
				}
				viaFlags = 0
				if algo != "" {
					as, ok := sg.(ssh.AlgorithmSigner)
					if !ok {
						viaNoAlgo = true
						break
					}
					viaFlags = op.Flags
					gotSig, cerr = as.SignWithAlgorithm(rand.Reader, data, algo)
				} else {
					gotSig, cerr = sg.Sign(rand.Reader, data)
				}
			case "addsmartcard":
				cerr = cli.AddSmartcardKey(op.Comment, passBytes(op.Pass), time.Duration(op.Lifetime)*time.Second, op.Confirm)
			case "removesmartcard":
				cerr = cli.RemoveSmartcardKey(op.Comment, passBytes(op.Pass))
			}
		}()
		res := "ok"
		if cerr != nil {
			res = "err"
		}
		if cpanic != nil {
			res = "panic"
		}
		o.Logf("%s -> %s (served calls +%d)", tag, res, len(st.calls)-nCalls)
		sig = append(sig, fmt.Sprintf("%s:%s:%v", op.Op, res, op.Fail != ""))
		if cpanic != nil {
			o.Fail("C13.no_crash", "client_panic:"+op.Op, i, "%s: client panicked: %v", tag, cpanic)
			break
		}
		// a failing raw relay ends the service of this connection by specification: wait for it (deterministically)
		// instead of racing with the serving goroutine
		if op.Op == "forward" && op.Fail != "" && cerr != nil {
			if rr, _ := hex.DecodeString(op.Raw); len(rr) > 0 && opOf(rr[0]) == "forward" {
				<-done
			}
		}
		select {
		case <-done:
			if srvPanic != nil {
				o.Fail("C13.no_crash", "server_panic:"+panicSite(srvStack), i, "%s: the server side crashed: %v (piv output %q)", tag, srvPanic, p.PivOutput)
			} else if !(op.Op == "forward" && op.Fail != "") && !(op.Op == "addhardcert_legacy" && op.Fail != "") {
				o.Fail("C13.session", "server_ended:"+op.Op, i, "%s: the served connection ended unexpectedly: %v", tag, srvErr)
			} else {
				o.Probe("forward_failure_ends_session")
				ended = true
			}
		default:
		}
		if o.All != nil {
			break
		}
		slotOp := op.Op == "listslots" || op.Op == "readslot" || op.Op == "attestslot"
		if p.Slots == "real" && slotOp {
			s.checkRealSlots(o, i, tag, op, &p, gotSlots, gotCert, cerr, pivLog)
			continue
		}
		// ---- the served agent received the same arguments ----
		newCalls := st.calls[nCalls:]
		wantOp := map[string]string{"list": "list", "sign": "sign", "add": "add", "remove": "remove", "removeall": "removeall", "lock": "lock",
			"unlock": "unlock", "signers": "list", "addhardcert": "addhardcert", "addhardcert_legacy": "addhardcert", "listslots": "listslots",
			"readslot": "readslot", "attestslot": "attestslot", "wait": "wait", "forward": "forward",
			"addsmartcard": "forward", "removesmartcard": "forward"}[op.Op]
		if op.Op == "forward" {
			rawReq, _ := hex.DecodeString(op.Raw)
			wantOp = opOf(rawReq[0])
		}
		if op.Op == "signvia" {
			if viaNoAlgo {
				o.Fail("C13.result", "signer_without_algorithms", i, "%s: the signer for the served RSA key (index %d) cannot sign with rsa-sha2-256 / rsa-sha2-512 (it is no ssh.AlgorithmSigner), the served agent's own signers can", tag, viaIdx)
				break
			}
			// the client builds its signers from one list request; a failing list ends the operation there
			if len(newCalls) >= 1 && newCalls[0].Op == "list" && op.Fail != "" {
				if cerr == nil {
					o.Fail("C13.result", "failure_lost:signvia", i, "%s: the served agent failed the list request but the caller got no error", tag)
				}
				continue
			}
			if len(newCalls) != 2 || newCalls[0].Op != "list" || newCalls[1].Op != "sign" {
				var ops []string
				for _, c := range newCalls {
					ops = append(ops, c.Op)
				}
				o.Fail("C13.dispatch", "dispatch:signvia", i, "%s: served agent saw calls %v, want a list and a sign request", tag, ops)
				break
			}
			c := newCalls[1]
			if !bytes.Equal(c.Blob, viaKey) || !bytes.Equal(viaKey, st.keys[viaIdx].Blob) {
				o.Fail("C13.args", "args:signvia:key", i, "%s: served agent was asked to sign with another key than that of signer %d", tag, viaIdx)
			}
			if !bytes.Equal(c.Data, data) {
				o.Fail("C13.args", "args:signvia:data", i, "%s: served agent received %d bytes to sign, the caller gave %d", tag, len(c.Data), len(data))
			}
			if c.Flags != viaFlags {
				o.Fail("C13.args", "args:signvia:flags", i, "%s: served agent received signature flags %d, the requested algorithm corresponds to %d", tag, c.Flags, viaFlags)
			}
			if cerr != nil {
				o.Fail("C13.result", "spurious_error:signvia", i, "%s: the served agent succeeded but the caller got error %v", tag, cerr)
			} else if gotSig == nil || gotSig.Format != st.sig.Format || !bytes.Equal(gotSig.Blob, st.sig.Blob) {
				o.Fail("C13.result", "signature", i, "%s: signature differs from the served one", tag)
			} else {
				o.Probe("signed_through_client_signer")
			}
			continue
		}
		if len(newCalls) != 1 || newCalls[0].Op != wantOp {
			var ops []string
			for _, c := range newCalls {
				ops = append(ops, c.Op)
			}
			o.Fail("C13.dispatch", "dispatch:"+op.Op, i, "%s: served agent saw calls %v, want exactly one %q", tag, ops, wantOp)
			break
		}
		c := newCalls[0]
		bad := func(what string, got, want any) {
			o.Fail("C13.args", "args:"+op.Op+":"+what, i, "%s: served agent received %s = %v, the caller gave %v", tag, what, got, want)
		}
		switch op.Op {
		case "sign":
			if !bytes.Equal(c.Blob, pub.Marshal()) {
				bad("key", trunc(c.Blob), trunc(pub.Marshal()))
			}
			if !bytes.Equal(c.Data, data) {
				bad("data", fmt.Sprintf("%d bytes", len(c.Data)), fmt.Sprintf("%d bytes", len(data)))
			}
			if c.Flags != op.Flags {
				bad("flags", c.Flags, op.Flags)
			}
		case "add":
			ak := c.Added
			wantPub := keys.Pub(op.KeyKind, op.KeyLabel).Marshal()
			gotSigner, err := ssh.NewSignerFromKey(derefKey(ak.PrivateKey))
			if err != nil || !bytes.Equal(gotSigner.PublicKey().Marshal(), wantPub) {
				bad("private key", err, "key "+op.KeyLabel)
			}
			if (cert == nil) != (ak.Certificate == nil) || (cert != nil && !bytes.Equal(cert.Marshal(), ak.Certificate.Marshal())) {
				bad("certificate", ak.Certificate != nil, cert != nil)
			}
			if ak.Comment != op.Comment {
				bad("comment", ak.Comment, op.Comment)
			}
			if ak.LifetimeSecs != op.Lifetime {
				bad("lifetime", ak.LifetimeSecs, op.Lifetime)
			}
			if ak.ConfirmBeforeUse != op.Confirm {
				bad("confirm", ak.ConfirmBeforeUse, op.Confirm)
			}
		case "remove":
			if !bytes.Equal(c.Blob, pub.Marshal()) {
				bad("key", trunc(c.Blob), trunc(pub.Marshal()))
			}
		case "lock", "unlock":
			if !bytes.Equal(c.Data, passBytes(op.Pass)) {
				bad("passphrase", c.Data, passBytes(op.Pass))
			}
		case "addhardcert":
			if !bytes.Equal(c.Blob, pub.Marshal()) {
				bad("key", trunc(c.Blob), trunc(pub.Marshal()))
			}
			if c.Comment != op.Comment {
				bad("comment", c.Comment, op.Comment)
			}
		case "addhardcert_legacy":
			if !bytes.Equal(c.Blob, pub.Marshal()) {
				bad("key", trunc(c.Blob), trunc(pub.Marshal()))
			}
		case "readslot", "attestslot":
			if c.Str != op.Slot {
				bad("slot", c.Str, op.Slot)
			}
		case "wait":
			if int(c.Code) != op.Code {
				bad("code", c.Code, op.Code)
			}
		case "forward":
			rawReq, _ := hex.DecodeString(op.Raw)
			if wantOp == "forward" && !bytes.Equal(c.Data, rawReq) {
				bad("raw request", trunc(c.Data), trunc(rawReq))
			}
		case "addsmartcard":
			// draft-miller-ssh-agent: byte 26 (20 when unconstrained), string reader id, string PIN, then the
			// constraints: 01 + uint32 seconds for a lifetime, 02 for confirmation
			want := cat(sshString([]byte(op.Comment)), sshString(passBytes(op.Pass)))
			if op.Lifetime != 0 {
				want = cat(want, []byte{1}, u32(op.Lifetime))
			}
			if op.Confirm {
				want = cat(want, []byte{2})
			}
			okCode := len(c.Data) > 0 && (c.Data[0] == 26 || (c.Data[0] == 20 && op.Lifetime == 0 && !op.Confirm))
			if !okCode || !bytes.Equal(c.Data[1:], want) {
				bad("smartcard add request (reader, PIN, lifetime, confirm)", hex.EncodeToString(trunc(c.Data)), "1a"+hex.EncodeToString(trunc(want)))
			}
		case "removesmartcard":
			want := cat([]byte{21}, sshString([]byte(op.Comment)), sshString(passBytes(op.Pass)))
			if !bytes.Equal(c.Data, want) {
				bad("smartcard remove request (reader, PIN)", hex.EncodeToString(trunc(c.Data)), hex.EncodeToString(trunc(want)))
			}
		}
		// ---- the caller received the same result ----
		failed := op.Fail != ""
		if failed {
			o.Probe("served_failure")
			if cerr == nil && op.Op != "addhardcert_legacy" {
				o.Fail("C13.result", "failure_lost:"+op.Op, i, "%s: the served agent failed with %q but the caller got no error", tag, op.Fail)
			}
			if op.Op == "addhardcert_legacy" && cerr == nil && string(gotBytes) != op.Fail {
				o.Fail("C13.result", "failure_text:"+op.Op, i, "%s: raw reply %q, want the failure text %q", tag, gotBytes, op.Fail)
			}
			switch op.Op {
			case "addhardcert", "wait", "listslots", "readslot", "attestslot":
				if cerr != nil && cerr.Error() != op.Fail {
					o.Fail("C13.result", "failure_text:"+op.Op, i, "%s: error text %q, the served agent said %q", tag, cerr.Error(), op.Fail)
				}
			}
			continue
		}
		if cerr != nil {
			o.Fail("C13.result", "spurious_error:"+op.Op, i, "%s: the served agent succeeded but the caller got error %v", tag, cerr)
			continue
		}
		switch op.Op {
		case "list":
			if len(gotKeys) != len(st.keys) {
				o.Fail("C13.result", "list", i, "%s: %d keys, served %d", tag, len(gotKeys), len(st.keys))
			} else {
				for k := range gotKeys {
					if !bytes.Equal(gotKeys[k].Blob, st.keys[k].Blob) || gotKeys[k].Comment != st.keys[k].Comment || gotKeys[k].Format != st.keys[k].Format {
						o.Fail("C13.result", "list", i, "%s: key %d differs from the served one", tag, k)
					}
				}
			}
		case "signers":
			if len(gotSigners) != len(st.keys) {
				o.Fail("C13.result", "signers", i, "%s: %d signers, served %d keys", tag, len(gotSigners), len(st.keys))
			} else {
				for k := range gotSigners {
					if !bytes.Equal(gotSigners[k].PublicKey().Marshal(), st.keys[k].Blob) {
						o.Fail("C13.result", "signers", i, "%s: signer %d has another key", tag, k)
					}
				}
			}
		case "sign":
			if gotSig == nil || gotSig.Format != st.sig.Format || !bytes.Equal(gotSig.Blob, st.sig.Blob) {
				o.Fail("C13.result", "signature", i, "%s: signature differs from the served one", tag)
			}
		case "listslots":
			if strings.Join(gotSlots, "|") != strings.Join(st.slots, "|") {
				o.Fail("C13.result", "slots", i, "%s: slots %q, served %q", tag, gotSlots, st.slots)
			}
		case "readslot", "attestslot":
			if gotCert == nil || !bytes.Equal(gotCert.Raw, st.cert.Raw) {
				o.Fail("C13.result", "slot_cert", i, "%s: certificate differs from the served one", tag)
			}
		case "forward":
			rawReq, _ := hex.DecodeString(op.Raw)
			if wantOp == "forward" && !bytes.Equal(gotBytes, echoReply(rawReq)) {
				o.Fail("C13.result", "forward_reply", i, "%s: raw reply %x, served %x", tag, trunc(gotBytes), trunc(echoReply(rawReq)))
			}
		case "addhardcert_legacy":
			if string(gotBytes) != "SUCCESS" {
				o.Fail("C13.result", "legacy_reply", i, "%s: raw reply %q, want SUCCESS", tag, gotBytes)
			}
		}
		o.Probe("op_agrees")
	}
	a.Close()
	b.Close()
	<-done
	// what the served agent was given must still be what it was given, whatever was served afterwards
	for ci, c := range st.calls {
		if c.Kept == nil || c.Blob == nil {
			continue
		}
		var now []byte
		func() {
			defer func() { recover() }()
			now = c.Kept.Marshal()
		}()
		if !bytes.Equal(now, c.Blob) {
			o.Fail("C13.args", "args:kept_key_changed:"+c.Op, ci, "the key / certificate the served agent received in its call %d (%s) no longer encodes to the bytes it had then: later requests on the connection changed it", ci, c.Op)
			break
		} else if ci < len(st.calls)-1 {
			o.Probe("kept_key_intact_after_later_requests")
		}
	}
	if srvPanic != nil && o.All == nil {
		o.Fail("C13.no_crash", "server_panic:"+panicSite(srvStack), len(p.Ops), "the server side crashed: %v", srvPanic)
	}
	if cliConn.Splits+srvConn.Splits > 0 {
		o.Fault("split_writes")
	}
	if len(p.RChunks) > 0 || len(p.WChunks) > 0 {
		o.Fault("short_reads")
	}
	if p.Slots == "real" {
		o.Fault("piv_tool_output")
		if p.PivExit != 0 {
			o.Fault("piv_tool_exit_nonzero")
		}
	}
	o.Signature = strings.Join(sig, ",") + fmt.Sprintf("|slots=%s remote=%v", p.Slots, p.Remote)
	return o
}

type slotChecker struct{}

var s slotChecker

func (slotChecker) checkRealSlots(o *sim.Outcome, i int, tag string, op WOp, p *C13Plan, gotSlots []string, gotCert *x509.Certificate, cerr error, pivLog string) {
	logged, _ := os.ReadFile(pivLog)
	if p.Remote {
		o.Probe("remote_slot_op")
		if cerr == nil {
			o.Fail("C13.remote", "remote_allowed:"+op.Op, i, "%s: slot operation succeeded on a remote-mode server", tag)
		}
		if len(logged) > 0 {
			o.Fail("C13.remote", "remote_tool_invoked", i, "%s: remote-mode server invoked the PIV tool: %q", tag, logged)
		}
		return
	}
	switch op.Op {
	case "listslots":
		want, exact := expectedSlots(p.PivOutput)
		switch {
		case p.PivExit != 0:
			if cerr == nil {
				o.Fail("C13.slots", "exit_ignored", i, "%s: the PIV tool exited with %d but ListSlots succeeded", tag, p.PivExit)
			}
			o.Probe("piv_exit_nonzero")
		case !exact:
			o.Probe("short_slot_line")
		default:
			if cerr != nil {
				o.Fail("C13.slots", "listslots_error", i, "%s: ListSlots failed on output %q: %v", tag, p.PivOutput, cerr)
			} else if strings.Join(gotSlots, "|") != strings.Join(want, "|") {
				o.Fail("C13.slots", "listslots_value", i, "%s: ListSlots = %q, the tool's output %q has %q", tag, gotSlots, p.PivOutput, want)
			} else {
				o.Probe("slots_agree")
			}
		}
	case "readslot", "attestslot":
		good := op.Slot == "9a" || op.Slot == "9c"
		if good {
			wantDER := testCertDER()
			if op.Op == "attestslot" {
				wantDER = attestCertDER() // the attestation of a slot is another certificate than the slot's
			}
			if cerr != nil || gotCert == nil || !bytes.Equal(gotCert.Raw, wantDER) {
				o.Fail("C13.slots", "slot_cert", i, "%s: slot %q: err=%v, want the tool's certificate", tag, op.Slot, cerr)
			} else {
				o.Probe("slot_cert_agrees")
			}
		} else if cerr == nil {
			o.Fail("C13.slots", "slot_error_lost", i, "%s: the PIV tool failed for slot %q but the caller got no error", tag, op.Slot)
		}
	}
}

func derefKey(k interface{}) interface{} { return k }

func passBytes(h string) []byte { b, _ := hex.DecodeString(h); return b }

// SpecC13 is the exploration spec of property C13.
var SpecC13 = &sim.Spec{Property: "C13", World: "W", Generate: genC13, Execute: execC13, Shrink: shrinkC13}
