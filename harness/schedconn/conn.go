// Package schedconn is the simulated transport of the scheduled worlds: an
// in-memory duplex connection whose every Read and Write is a scheduling point
// and which remembers which task wrote and read which bytes (transport
// discipline oracle of C11). All state is touched from //go:norace code only,
// so the transport creates no happens-before edge between tasks.
package schedconn

import (
	"errors"
	"io"
	"net"
	"os"
	"time"

	"verifsim/sched"
)

// Chunk is a run of bytes written or read by one task.
type Chunk struct {
	Task int
	N    int
	Seq  int
}

type half struct {
	buf    []byte
	closed bool
	name   string
	writes []Chunk
	reads  []Chunk
	all    []byte // everything ever written (for frame parsing)
}

func (h *half) SimName() string { return h.name }

// End is one end of the connection; it implements net.Conn.
type End struct {
	rd *half // bytes flowing towards this end
	wr *half // bytes flowing away from this end
	// read deadline armed by the code under test (SetDeadline / SetReadDeadline with a non-zero time)
	armed bool
	// When a read with an armed deadline finds nothing to read the plan decides whether the peer takes longer
	// than that deadline (the read then fails with a timeout; what the peer sends arrives afterwards). Scheduled
	// runs have no clock: a peer may be slower than any finite deadline, so expiry is a choice of the plan.
	// LateAt lists which of those reads (0-based count of reads that found nothing under an armed deadline) time out.
	LateAt   []int
	lateSeen int
	// Expired counts the reads that timed out.
	Expired int
}

// Pipe returns the two ends; name labels the connection in logs.
func Pipe(name string) (*End, *End) {
	ab := &half{name: name + ":a->b"}
	ba := &half{name: name + ":b->a"}
	return &End{rd: ba, wr: ab}, &End{rd: ab, wr: ba}
}

var errClosed = errors.New("schedconn: closed")

// Read implements io.Reader.
func (e *End) Read(p []byte) (int, error) { return e.read(p) }

//go:norace
func (e *End) read(p []byte) (int, error) {
	s := sched.Active()
	if s == nil {
		// outside a scheduled run nothing can arrive
		if len(e.rd.buf) == 0 {
			return 0, io.EOF
		}
	} else {
		s.Yield("read?", e.rd.name)
		if len(e.rd.buf) == 0 && !e.rd.closed && e.armed {
			n := e.lateSeen
			e.lateSeen++
			for _, k := range e.LateAt {
				if k == n {
					e.Expired++
					s.Note("read-timeout", e.rd.name)
					return 0, os.ErrDeadlineExceeded
				}
			}
		}
		for len(e.rd.buf) == 0 && !e.rd.closed && !s.Over() {
			s.Wait(e.rd, "readwait")
		}
	}
	if len(e.rd.buf) == 0 {
		return 0, io.EOF
	}
	// element-wise on purpose: copy() and append() are instrumented inside the runtime even in norace code
	n := len(p)
	if len(e.rd.buf) < n {
		n = len(e.rd.buf)
	}
	for i := 0; i < n; i++ {
		p[i] = e.rd.buf[i]
	}
	e.rd.buf = e.rd.buf[n:]
	if s != nil {
		e.rd.reads = growChunks(e.rd.reads, Chunk{Task: s.Current().ID, N: n, Seq: s.Stamp()})
		s.Note("read", e.rd.name)
	}
	return n, nil
}

// Write implements io.Writer.
func (e *End) Write(p []byte) (int, error) { return e.write(p) }

//go:norace
func (e *End) write(p []byte) (int, error) {
	s := sched.Active()
	if s != nil {
		s.Yield("write?", e.wr.name)
	}
	if e.wr.closed {
		return 0, errClosed
	}
	e.wr.buf = grow(e.wr.buf, p)
	e.wr.all = grow(e.wr.all, p)
	if s != nil {
		e.wr.writes = growChunks(e.wr.writes, Chunk{Task: s.Current().ID, N: len(p), Seq: s.Stamp()})
		s.Note("write", e.wr.name)
		s.Wake(e.wr)
	}
	return len(p), nil
}

// Close closes both directions.
func (e *End) Close() error { return e.close() }

//go:norace
func (e *End) close() error {
	e.rd.closed = true
	e.wr.closed = true
	if s := sched.Active(); s != nil {
		s.Wake(e.rd)
		s.Wake(e.wr)
	}
	return nil
}

type addr struct{}

func (addr) Network() string { return "sim" }
func (addr) String() string  { return "sim" }

func (e *End) LocalAddr() net.Addr                { return addr{} }
func (e *End) RemoteAddr() net.Addr               { return addr{} }
func (e *End) SetDeadline(t time.Time) error      { return e.arm(!t.IsZero()) }
func (e *End) SetReadDeadline(t time.Time) error  { return e.arm(!t.IsZero()) }
func (e *End) SetWriteDeadline(t time.Time) error { return nil }

//go:norace
func (e *End) arm(on bool) error { e.armed = on; return nil }

// PendingOut returns how many bytes written from this end the peer has not read (yet).
//
//go:norace
func (e *End) PendingOut() int { return len(e.wr.buf) }

// Sent returns everything written from this end, and who wrote it.
//
//go:norace
func (e *End) Sent() ([]byte, []Chunk) { return e.wr.all, e.wr.writes }

// ReadsOfPeerData returns who read the bytes that flowed towards this end.
//
//go:norace
func (e *End) Reads() []Chunk { return e.rd.reads }

// grow appends p to b without copy()/append(), which the runtime instruments
// for the race detector regardless of //go:norace.
//
//go:norace
func grow(b, p []byte) []byte {
	need := len(b) + len(p)
	if need > cap(b) {
		nb := make([]byte, len(b), 2*need+64)
		for i := range b {
			nb[i] = b[i]
		}
		b = nb
	}
	n := len(b)
	b = b[:need]
	for i := range p {
		b[n+i] = p[i]
	}
	return b
}

//go:norace
func growChunks(b []Chunk, c Chunk) []Chunk {
	if len(b) == cap(b) {
		nb := make([]Chunk, len(b), 2*len(b)+16)
		for i := range b {
			nb[i] = b[i]
		}
		b = nb
	}
	b = b[:len(b)+1]
	b[len(b)-1] = c
	return b
}
