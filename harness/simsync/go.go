package simsync

import (
	"fmt"
	"sync"

	"verifsim/sched"
)

// Go stands for a `go` statement of the code under test (rewritten by cmd/overlaygen): inside a scheduled run the new
// goroutine is a (daemon) task of that run, outside it is a plain goroutine.
func Go(fn func()) {
	s := sched.Active()
	if s == nil || s.Over() || s.Current() == nil {
		go fn()
		return
	}
	s.Go(fmt.Sprintf("go@%d", s.Stamp()), true, fn)
	bumpSpawned()
}

var spawned int

// Spawned counts the goroutines of the code under test that became tasks (read by the worlds per run).
//
//go:norace
func Spawned() int { return spawned }

//go:norace
func bumpSpawned() { spawned++ }

// WaitGroup is a scheduler-aware sync.WaitGroup: Wait parks the calling task until the counter is zero; the real
// operations are performed as well (never blocking, by construction) so that the race detector sees the program's own
// happens-before edges.
type WaitGroup struct {
	real sync.WaitGroup
	n    int
	id   int
}

//go:norace
func (w *WaitGroup) name() string {
	if w.id == 0 {
		w.id = newID()
	}
	return fmt.Sprintf("waitgroup#%d", w.id)
}

// SimName describes the object in deadlock reports.
func (w *WaitGroup) SimName() string { return w.name() }

//go:norace
func (w *WaitGroup) add(s *sched.Sched, d int) {
	w.n += d
	s.Note("wg-add", w.name())
	if w.n <= 0 {
		s.Wake(w)
	}
}

//go:norace
func (w *WaitGroup) await(s *sched.Sched) {
	s.Yield("wg-wait?", w.name())
	for w.n > 0 && !s.Over() {
		s.Wait(w, "wgwait")
	}
}

// Add adds delta to the counter.
func (w *WaitGroup) Add(delta int) {
	if s := sched.Active(); s != nil && s.Current() != nil {
		w.add(s, delta)
	}
	w.real.Add(delta)
}

// Done decrements the counter.
func (w *WaitGroup) Done() { w.Add(-1) }

// Go runs f in a new goroutine counted by the group.
func (w *WaitGroup) Go(f func()) {
	w.Add(1)
	Go(func() {
		defer w.Done()
		f()
	})
}

// Wait blocks until the counter is zero.
func (w *WaitGroup) Wait() {
	if s := sched.Active(); s != nil && s.Current() != nil {
		w.await(s)
		if s.Over() {
			return
		}
	}
	w.real.Wait()
}
