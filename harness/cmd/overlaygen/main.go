// Command overlaygen rewrites source files of the code under test for the scheduled worlds (build overlay):
//
//   - `import "sync"` becomes the scheduler-aware verifsim/simsync, `import "time"` becomes verifsim/simtime,
//     `import "context"` becomes verifsim/simcontext (the real package, deadlines counted);
//   - every `go` statement becomes a call of simsync.Go, so that goroutines started by the code under test are tasks of
//     the scheduled run (their interleavings are decided by the scheduler like those of the client tasks). The operands
//     of the go statement are still evaluated when the statement executes;
//   - every channel operation that may block - send statement, receive expression, select without default, range over
//     a channel - is bracketed by simsync.ChanBegin / ChanEnd (directly or through the generic helpers ChanSend,
//     ChanRecv, ChanRecv2): the operation stays the real one on the real channel, but the task gives the token back
//     before it and asks for it again afterwards (sched/real.go). Channel and value operands are evaluated before the
//     token is given back. Range statements need type information (is the operand a channel?): the package is
//     type-checked with export data from `go list -export`; when that fails, range statements are left alone (a task
//     blocked in one then keeps the token and the run ends in the wall-clock guard, as before).
//
// usage: overlaygen <out dir> <src file>...   prints one line "src<TAB>out" per file that changed.
// Environment: VERIF_OVERLAY_GO (go command, default "go"), VERIF_OVERLAY_REPO (module root of the sources; without it
// no type information is used).
package main

import (
	"bytes"
	"fmt"
	"go/ast"
	"go/build"
	"go/importer"
	"go/parser"
	"go/printer"
	"go/token"
	"go/types"
	"io"
	"os"
	"os/exec"
	"path/filepath"
	"reflect"
	"sort"
	"strconv"
	"strings"
)

const (
	simsyncPath = "verifsim/simsync"
	simtimePath = "verifsim/simtime"
	simctxPath  = "verifsim/simcontext"
	goAlias     = "verifsimgo"
)

func main() {
	if len(os.Args) < 3 {
		fmt.Fprintln(os.Stderr, "usage: overlaygen <out dir> <src file>...")
		os.Exit(2)
	}
	out := os.Args[1]
	srcs := os.Args[2:]
	fset := token.NewFileSet()
	files := map[string]*ast.File{}
	byDir := map[string][]string{}
	for _, src := range srcs {
		f, err := parser.ParseFile(fset, src, nil, parser.ParseComments)
		if err != nil {
			fmt.Fprintf(os.Stderr, "overlaygen: %s: %v\n", src, err)
			os.Exit(1)
		}
		files[src] = f
		byDir[filepath.Dir(src)] = append(byDir[filepath.Dir(src)], src)
	}
	chanRange := map[*ast.RangeStmt]bool{}
	if repo := os.Getenv("VERIF_OVERLAY_REPO"); repo != "" {
		dirs := make([]string, 0, len(byDir))
		for d := range byDir {
			dirs = append(dirs, d)
		}
		sort.Strings(dirs)
		if err := typeInfo(fset, repo, dirs, byDir, files, chanRange); err != nil {
			fmt.Fprintf(os.Stderr, "overlaygen: no type information (range statements over channels stay as they are): %v\n", err)
		}
	}
	for i, src := range srcs {
		changed, text, err := rewrite(fset, files[src], chanRange)
		if err != nil {
			fmt.Fprintf(os.Stderr, "overlaygen: %s: %v\n", src, err)
			os.Exit(1)
		}
		if !changed {
			continue
		}
		dst := filepath.Join(out, fmt.Sprintf("%03d_%s", i, filepath.Base(src)))
		if err := os.WriteFile(dst, text, 0o644); err != nil {
			fmt.Fprintln(os.Stderr, err)
			os.Exit(1)
		}
		fmt.Printf("%s\t%s\n", src, dst)
	}
}

// typeInfo type-checks each directory's package (files selected by the build constraints with tag verif) and records
// the range statements whose operand is a channel.
func typeInfo(fset *token.FileSet, repo string, dirs []string, byDir map[string][]string, files map[string]*ast.File, chanRange map[*ast.RangeStmt]bool) error {
	gocmd := os.Getenv("VERIF_OVERLAY_GO")
	if gocmd == "" {
		gocmd = "go"
	}
	args := []string{"list", "-export", "-deps", "-tags", "verif", "-f", "{{.ImportPath}}\t{{.Export}}"}
	args = append(args, dirs...)
	cmd := exec.Command(gocmd, args...)
	cmd.Dir = repo
	var stderr bytes.Buffer
	cmd.Stderr = &stderr
	outb, err := cmd.Output()
	if err != nil {
		return fmt.Errorf("go list -export: %v: %s", err, strings.TrimSpace(stderr.String()))
	}
	export := map[string]string{}
	for _, l := range strings.Split(string(outb), "\n") {
		if p, e, ok := strings.Cut(l, "\t"); ok && e != "" {
			export[p] = e
		}
	}
	lookup := func(path string) (io.ReadCloser, error) {
		e, ok := export[path]
		if !ok {
			return nil, fmt.Errorf("no export data for %s", path)
		}
		return os.Open(e)
	}
	imp := importer.ForCompiler(fset, "gc", lookup)
	bctx := build.Default
	bctx.BuildTags = append(bctx.BuildTags, "verif")
	for _, d := range dirs {
		var list []*ast.File
		for _, src := range byDir[d] {
			if ok, err := bctx.MatchFile(filepath.Dir(src), filepath.Base(src)); err == nil && !ok {
				continue
			}
			list = append(list, files[src])
		}
		info := &types.Info{Types: map[ast.Expr]types.TypeAndValue{}}
		conf := types.Config{Importer: imp, Error: func(error) {}}
		_, cerr := conf.Check(d, fset, list, info)
		n := 0
		for _, f := range list {
			ast.Inspect(f, func(x ast.Node) bool {
				if r, ok := x.(*ast.RangeStmt); ok {
					if tv, ok := info.Types[r.X]; ok && tv.Type != nil {
						if _, isChan := tv.Type.Underlying().(*types.Chan); isChan {
							chanRange[r] = true
							n++
						}
					}
				}
				return true
			})
		}
		if cerr != nil {
			fmt.Fprintf(os.Stderr, "overlaygen: %s: type errors (first: %v); %d range-over-channel statements recognised all the same\n", d, cerr, n)
		}
	}
	return nil
}

func rewrite(fset *token.FileSet, f *ast.File, chanRange map[*ast.RangeStmt]bool) (bool, []byte, error) {
	changed := false
	syncName := "" // how the file refers to (the stand-in for) package sync
	for _, imp := range f.Imports {
		p, _ := strconv.Unquote(imp.Path.Value)
		switch p {
		case "sync":
			imp.Path.Value = strconv.Quote(simsyncPath)
			if imp.Name == nil {
				imp.Name = ast.NewIdent("sync")
			}
			if imp.Name.Name != "_" && imp.Name.Name != "." {
				syncName = imp.Name.Name
			}
			changed = true
		case "time":
			imp.Path.Value = strconv.Quote(simtimePath)
			if imp.Name == nil {
				imp.Name = ast.NewIdent("time")
			}
			changed = true
		case "context":
			imp.Path.Value = strconv.Quote(simctxPath)
			if imp.Name == nil {
				imp.Name = ast.NewIdent("context")
			}
			changed = true
		}
	}
	r := &rewriter{pkg: goAlias, skip: map[ast.Node]bool{}, chanRange: chanRange}
	r.walk(reflect.ValueOf(f))
	if r.n > 0 {
		changed = true
		// the helpers are always reached through an alias of our own: the file's name for sync may be shadowed locally
		addImport(f, goAlias, simsyncPath)
	}
	_ = syncName
	if !changed {
		return false, nil, nil
	}
	var buf bytes.Buffer
	if err := (&printer.Config{Mode: printer.UseSpaces | printer.TabIndent, Tabwidth: 8}).Fprint(&buf, fset, f); err != nil {
		return false, nil, err
	}
	return true, buf.Bytes(), nil
}

type rewriter struct {
	pkg       string
	n         int // rewrites done (also numbers the generated identifiers)
	skip      map[ast.Node]bool
	chanRange map[*ast.RangeStmt]bool
}

var (
	exprType = reflect.TypeOf((*ast.Expr)(nil)).Elem()
	stmtType = reflect.TypeOf((*ast.Stmt)(nil)).Elem()
)

// walk visits the syntax tree through reflection, children first, and replaces expressions and statements in place
// wherever they are held (struct fields and slices of type ast.Expr / ast.Stmt).
func (r *rewriter) walk(v reflect.Value) {
	switch v.Kind() {
	case reflect.Interface:
		if !v.IsNil() {
			r.walk(v.Elem())
		}
	case reflect.Ptr:
		if v.IsNil() {
			return
		}
		if n, ok := v.Interface().(ast.Node); ok {
			r.pre(n)
		}
		if _, isObj := v.Interface().(*ast.Object); isObj {
			return
		}
		if _, isScope := v.Interface().(*ast.Scope); isScope {
			return
		}
		r.walk(v.Elem())
	case reflect.Struct:
		for i := 0; i < v.NumField(); i++ {
			fld := v.Field(i)
			if !fld.CanSet() {
				continue
			}
			r.field(fld)
		}
	case reflect.Slice:
		for i := 0; i < v.Len(); i++ {
			r.field(v.Index(i))
		}
	}
}

func (r *rewriter) field(fld reflect.Value) {
	switch {
	case fld.Type() == exprType:
		if fld.IsNil() {
			return
		}
		r.walk(fld)
		if e, ok := fld.Interface().(ast.Expr); ok {
			if ne := r.expr(e); ne != e {
				fld.Set(reflect.ValueOf(ne))
			}
		}
	case fld.Type() == stmtType:
		if fld.IsNil() {
			return
		}
		r.walk(fld)
		if s, ok := fld.Interface().(ast.Stmt); ok {
			if ns := r.stmt(s); ns != s {
				fld.Set(reflect.ValueOf(ns))
			}
		}
	default:
		switch fld.Kind() {
		case reflect.Ptr, reflect.Interface, reflect.Slice, reflect.Struct:
			r.walk(fld)
		}
	}
}

func isRecv(e ast.Expr) (*ast.UnaryExpr, bool) {
	u, ok := e.(*ast.UnaryExpr)
	return u, ok && u.Op == token.ARROW
}

func (r *rewriter) call(name string, args ...ast.Expr) *ast.CallExpr {
	return &ast.CallExpr{Fun: &ast.SelectorExpr{X: ast.NewIdent(r.pkg), Sel: ast.NewIdent(name)}, Args: args}
}

// pre runs before the children of a node are visited.
func (r *rewriter) pre(n ast.Node) {
	switch x := n.(type) {
	case *ast.SelectStmt:
		// the communication of a case stays a communication
		for _, c := range x.Body.List {
			cc, ok := c.(*ast.CommClause)
			if !ok || cc.Comm == nil {
				continue
			}
			r.skip[cc.Comm] = true
			switch s := cc.Comm.(type) {
			case *ast.ExprStmt:
				r.skip[s.X] = true
			case *ast.AssignStmt:
				if len(s.Rhs) == 1 {
					r.skip[s.Rhs[0]] = true
				}
			}
		}
	case *ast.LabeledStmt:
		// a labelled select / range statement is rewritten together with its label (the label must stay on it)
		switch x.Stmt.(type) {
		case *ast.SelectStmt, *ast.RangeStmt:
			r.skip[x.Stmt] = true
		}
	case *ast.AssignStmt:
		// v, ok := <-c
		if !r.skip[x] && len(x.Lhs) == 2 && len(x.Rhs) == 1 {
			if u, ok := isRecv(x.Rhs[0]); ok {
				x.Rhs[0] = r.call("ChanRecv2", u.X)
				r.n++
			}
		}
	case *ast.ValueSpec:
		// var v, ok = <-c
		if len(x.Names) == 2 && len(x.Values) == 1 {
			if u, ok := isRecv(x.Values[0]); ok {
				x.Values[0] = r.call("ChanRecv2", u.X)
				r.n++
			}
		}
	}
}

// expr runs after the children of an expression were visited.
func (r *rewriter) expr(e ast.Expr) ast.Expr {
	if r.skip[e] {
		return e
	}
	if u, ok := isRecv(e); ok {
		r.n++
		return r.call("ChanRecv", u.X)
	}
	return e
}

// stmt runs after the children of a statement were visited.
func (r *rewriter) stmt(s ast.Stmt) ast.Stmt {
	if r.skip[s] {
		return s
	}
	switch x := s.(type) {
	case *ast.GoStmt:
		return r.goStmt(x)
	case *ast.SendStmt:
		r.n++
		return &ast.ExprStmt{X: r.call("ChanSend", x.Chan, x.Value)}
	case *ast.SelectStmt:
		return r.selectStmt(x, nil)
	case *ast.RangeStmt:
		return r.rangeStmt(x, nil)
	case *ast.LabeledStmt:
		switch in := x.Stmt.(type) {
		case *ast.SelectStmt:
			return r.selectStmt(in, x)
		case *ast.RangeStmt:
			return r.rangeStmt(in, x)
		}
	}
	return s
}

func define(name string, e ast.Expr) ast.Stmt {
	return &ast.AssignStmt{Lhs: []ast.Expr{ast.NewIdent(name)}, Tok: token.DEFINE, Rhs: []ast.Expr{e}}
}

// selectStmt brackets a select statement without default. lab is the labelled statement around it, if any: the label
// stays on the select statement itself (break <label> inside it keeps working).
func (r *rewriter) selectStmt(x *ast.SelectStmt, lab *ast.LabeledStmt) ast.Stmt {
	orig := ast.Stmt(x)
	if lab != nil {
		orig = lab
	}
	for _, c := range x.Body.List {
		if cc, ok := c.(*ast.CommClause); ok && cc.Comm == nil {
			return orig // has a default clause: never blocks
		}
	}
	r.n++
	id := r.n
	var pre []ast.Stmt
	hasSend := false
	h := fmt.Sprintf("verifChanH%d", id)
	for i, c := range x.Body.List {
		cc := c.(*ast.CommClause)
		cname := fmt.Sprintf("verifChanC%d_%d", id, i)
		switch s := cc.Comm.(type) {
		case *ast.SendStmt:
			hasSend = true
			pre = append(pre, define(cname, s.Chan))
			s.Chan = ast.NewIdent(cname)
			if !constantLike(s.Value) {
				vname := fmt.Sprintf("verifChanV%d_%d", id, i)
				pre = append(pre, define(vname, s.Value))
				s.Value = ast.NewIdent(vname)
			}
		case *ast.ExprStmt:
			u, ok := isRecv(s.X)
			if !ok {
				return orig
			}
			pre = append(pre, define(cname, u.X))
			u.X = ast.NewIdent(cname)
		case *ast.AssignStmt:
			if len(s.Rhs) != 1 {
				return orig
			}
			u, ok := isRecv(s.Rhs[0])
			if !ok {
				return orig
			}
			pre = append(pre, define(cname, u.X))
			u.X = ast.NewIdent(cname)
		default:
			return orig
		}
		end := &ast.ExprStmt{X: r.call("ChanEnd", ast.NewIdent(h))}
		cc.Body = append([]ast.Stmt{end}, cc.Body...)
	}
	pre = append(pre, define(h, r.call("ChanBegin")))
	if hasSend {
		pre = append(pre, &ast.DeferStmt{Call: r.call("ChanGuard", &ast.UnaryExpr{Op: token.AND, X: ast.NewIdent(h)})})
	}
	var core ast.Stmt = x
	if lab != nil {
		lab.Stmt = x
		core = lab
	}
	return &ast.BlockStmt{List: append(pre, core)}
}

// rangeStmt turns `for k := range ch { body }` into a loop around ChanRecv2.
func (r *rewriter) rangeStmt(x *ast.RangeStmt, lab *ast.LabeledStmt) ast.Stmt {
	orig := ast.Stmt(x)
	if lab != nil {
		orig = lab
	}
	if !r.chanRange[x] || x.Value != nil {
		return orig
	}
	r.n++
	id := r.n
	cname := fmt.Sprintf("verifChanR%d", id)
	ok := fmt.Sprintf("verifChanOk%d", id)
	var key ast.Expr = ast.NewIdent("_")
	if x.Key != nil {
		key = x.Key
	}
	var body []ast.Stmt
	recv := r.call("ChanRecv2", ast.NewIdent(cname))
	if x.Key == nil || x.Tok == token.DEFINE {
		body = append(body, &ast.AssignStmt{Lhs: []ast.Expr{key, ast.NewIdent(ok)}, Tok: token.DEFINE, Rhs: []ast.Expr{recv}})
	} else {
		body = append(body,
			&ast.DeclStmt{Decl: &ast.GenDecl{Tok: token.VAR, Specs: []ast.Spec{&ast.ValueSpec{Names: []*ast.Ident{ast.NewIdent(ok)}, Type: ast.NewIdent("bool")}}}},
			&ast.AssignStmt{Lhs: []ast.Expr{key, ast.NewIdent(ok)}, Tok: token.ASSIGN, Rhs: []ast.Expr{recv}})
	}
	body = append(body,
		&ast.IfStmt{Cond: &ast.UnaryExpr{Op: token.NOT, X: ast.NewIdent(ok)}, Body: &ast.BlockStmt{List: []ast.Stmt{&ast.BranchStmt{Tok: token.BREAK}}}},
		x.Body)
	var loop ast.Stmt = &ast.ForStmt{Body: &ast.BlockStmt{List: body}}
	if lab != nil {
		lab.Stmt = loop
		loop = lab
	}
	return &ast.BlockStmt{List: []ast.Stmt{define(cname, x.X), loop}}
}

func constantLike(e ast.Expr) bool {
	switch x := e.(type) {
	case *ast.BasicLit, *ast.FuncLit:
		return true
	case *ast.Ident:
		return x.Name == "nil" || x.Name == "true" || x.Name == "false" || x.Name == "iota"
	case *ast.ParenExpr:
		return constantLike(x.X)
	case *ast.UnaryExpr:
		return x.Op != token.AND && x.Op != token.ARROW && constantLike(x.X)
	case *ast.BinaryExpr:
		return constantLike(x.X) && constantLike(x.Y)
	case *ast.CompositeLit:
		// struct{}{} and the like
		return len(x.Elts) == 0
	}
	return false
}

// goStmt turns `go f(a, b)` into `{ v0 := a; v1 := b; simsync.Go(func() { f(v0, v1) }) }`.
func (r *rewriter) goStmt(g *ast.GoStmt) ast.Stmt {
	r.n++
	call := g.Call
	var pre []ast.Stmt
	hoist := func(e ast.Expr) ast.Expr {
		if constantLike(e) {
			return e
		}
		name := fmt.Sprintf("verifGoArg%d_%d", r.n, len(pre))
		pre = append(pre, &ast.AssignStmt{Lhs: []ast.Expr{ast.NewIdent(name)}, Tok: token.DEFINE, Rhs: []ast.Expr{e}})
		return ast.NewIdent(name)
	}
	// the function value itself (a method value's receiver, a function variable) is evaluated now too
	switch fn := call.Fun.(type) {
	case *ast.FuncLit, *ast.Ident:
	case *ast.SelectorExpr:
		// pkg.F or v.M with a plain identifier stay as they are; a receiver expression is evaluated now
		if _, isIdent := fn.X.(*ast.Ident); !isIdent {
			fn.X = hoist(fn.X)
		}
	default:
		call.Fun = hoist(call.Fun)
	}
	for i, a := range call.Args {
		call.Args[i] = hoist(a)
	}
	spawn := &ast.ExprStmt{X: &ast.CallExpr{
		Fun:  &ast.SelectorExpr{X: ast.NewIdent(r.pkg), Sel: ast.NewIdent("Go")},
		Args: []ast.Expr{&ast.FuncLit{Type: &ast.FuncType{Params: &ast.FieldList{}}, Body: &ast.BlockStmt{List: []ast.Stmt{&ast.ExprStmt{X: call}}}}},
	}}
	if len(pre) == 0 {
		return spawn
	}
	return &ast.BlockStmt{List: append(pre, spawn)}
}

func addImport(f *ast.File, name, path string) {
	spec := &ast.ImportSpec{Name: ast.NewIdent(name), Path: &ast.BasicLit{Kind: token.STRING, Value: strconv.Quote(path)}}
	for _, d := range f.Decls {
		if gd, ok := d.(*ast.GenDecl); ok && gd.Tok == token.IMPORT {
			gd.Specs = append(gd.Specs, spec)
			if !gd.Lparen.IsValid() {
				gd.Lparen = gd.Pos()
				gd.Rparen = gd.End()
			}
			f.Imports = append(f.Imports, spec)
			return
		}
	}
	gd := &ast.GenDecl{Tok: token.IMPORT, Specs: []ast.Spec{spec}}
	f.Decls = append([]ast.Decl{gd}, f.Decls...)
	f.Imports = append(f.Imports, spec)
}
