#!/bin/bash
# MANIFEST.setup_cmd: build what the checks need from files on disk only (offline).
set -e
cd "$(dirname "$0")/.."
export GOFLAGS=-mod=mod GOPROXY=off GOSUMDB=off GOTOOLCHAIN=local
mkdir -p build evidence replays
# warm the build cache of go1.26.8 (std + deps, plain and race) so that quick checks spend their time exploring
python3 - <<'PY'
import importlib.util, importlib.machinery, os, sys
loader = importlib.machinery.SourceFileLoader("check", os.path.join(os.getcwd(), "check"))
spec = importlib.util.spec_from_loader("check", loader)
m = importlib.util.module_from_spec(spec); loader.exec_module(m)
for prop in ("C12", "C01", "C07", "C17", "C06", "C11"):
    if prop in m.PROPS and os.path.isdir(os.path.join(m.HARNESS, m.PROPS[prop]["world"])) and \
       any(f.endswith("_test.go") for f in os.listdir(os.path.join(m.HARNESS, m.PROPS[prop]["world"]))):
        m.build(prop, m.PROPS[prop])
PY
echo setup done
