// Command overlaygen rewrites source files of the code under test for the scheduled worlds (build overlay):
//
//   - `import "sync"` becomes the scheduler-aware verifsim/simsync, `import "time"` becomes verifsim/simtime;
//   - every `go` statement becomes a call of simsync.Go, so that goroutines started by the code under test are tasks of
//     the scheduled run (their interleavings are decided by the scheduler like those of the client tasks). The operands
//     of the go statement are still evaluated when the statement executes.
//
// usage: overlaygen <out dir> <src file>...   prints one line "src<TAB>out" per file that changed.
package main

import (
	"bytes"
	"fmt"
	"go/ast"
	"go/parser"
	"go/printer"
	"go/token"
	"os"
	"path/filepath"
	"strconv"
)

const (
	simsyncPath = "verifsim/simsync"
	simtimePath = "verifsim/simtime"
	goAlias     = "verifsimgo"
)

func main() {
	if len(os.Args) < 3 {
		fmt.Fprintln(os.Stderr, "usage: overlaygen <out dir> <src file>...")
		os.Exit(2)
	}
	out := os.Args[1]
	for i, src := range os.Args[2:] {
		changed, text, err := rewrite(src)
		if err != nil {
			fmt.Fprintf(os.Stderr, "overlaygen: %s: %v\n", src, err)
			os.Exit(1)
		}
		if !changed {
			continue
		}
		dst := filepath.Join(out, fmt.Sprintf("%03d_%s", i, filepath.Base(src)))
		if err := os.WriteFile(dst, text, 0o644); err != nil {
			fmt.Fprintln(os.Stderr, err)
			os.Exit(1)
		}
		fmt.Printf("%s\t%s\n", src, dst)
	}
}

func rewrite(path string) (bool, []byte, error) {
	fset := token.NewFileSet()
	f, err := parser.ParseFile(fset, path, nil, parser.ParseComments)
	if err != nil {
		return false, nil, err
	}
	changed := false
	syncName := "" // how the file refers to (the stand-in for) package sync
	for _, imp := range f.Imports {
		p, _ := strconv.Unquote(imp.Path.Value)
		switch p {
		case "sync":
			imp.Path.Value = strconv.Quote(simsyncPath)
			if imp.Name == nil {
				imp.Name = ast.NewIdent("sync")
			}
			if imp.Name.Name != "_" && imp.Name.Name != "." {
				syncName = imp.Name.Name
			}
			changed = true
		case "time":
			imp.Path.Value = strconv.Quote(simtimePath)
			if imp.Name == nil {
				imp.Name = ast.NewIdent("time")
			}
			changed = true
		}
	}
	r := &rewriter{pkg: syncName}
	if r.pkg == "" {
		r.pkg = goAlias
	}
	ast.Inspect(f, func(n ast.Node) bool {
		switch x := n.(type) {
		case *ast.BlockStmt:
			r.list(x.List)
		case *ast.CaseClause:
			r.list(x.Body)
		case *ast.CommClause:
			r.list(x.Body)
		case *ast.LabeledStmt:
			if g, ok := x.Stmt.(*ast.GoStmt); ok {
				x.Stmt = r.goStmt(g)
			}
		}
		return true
	})
	if r.n > 0 {
		changed = true
		if syncName == "" {
			addImport(f, goAlias, simsyncPath)
		}
	}
	if !changed {
		return false, nil, nil
	}
	var buf bytes.Buffer
	if err := (&printer.Config{Mode: printer.UseSpaces | printer.TabIndent, Tabwidth: 8}).Fprint(&buf, fset, f); err != nil {
		return false, nil, err
	}
	return true, buf.Bytes(), nil
}

type rewriter struct {
	pkg string
	n   int
}

func (r *rewriter) list(l []ast.Stmt) {
	for i, s := range l {
		if g, ok := s.(*ast.GoStmt); ok {
			l[i] = r.goStmt(g)
		}
	}
}

func constantLike(e ast.Expr) bool {
	switch x := e.(type) {
	case *ast.BasicLit, *ast.FuncLit:
		return true
	case *ast.Ident:
		return x.Name == "nil" || x.Name == "true" || x.Name == "false" || x.Name == "iota"
	case *ast.ParenExpr:
		return constantLike(x.X)
	case *ast.UnaryExpr:
		return x.Op != token.AND && x.Op != token.ARROW && constantLike(x.X)
	case *ast.BinaryExpr:
		return constantLike(x.X) && constantLike(x.Y)
	}
	return false
}

// goStmt turns `go f(a, b)` into `{ v0 := a; v1 := b; simsync.Go(func() { f(v0, v1) }) }`.
func (r *rewriter) goStmt(g *ast.GoStmt) ast.Stmt {
	r.n++
	call := g.Call
	var pre []ast.Stmt
	hoist := func(e ast.Expr) ast.Expr {
		if constantLike(e) {
			return e
		}
		name := fmt.Sprintf("verifGoArg%d_%d", r.n, len(pre))
		pre = append(pre, &ast.AssignStmt{Lhs: []ast.Expr{ast.NewIdent(name)}, Tok: token.DEFINE, Rhs: []ast.Expr{e}})
		return ast.NewIdent(name)
	}
	// the function value itself (a method value's receiver, a function variable) is evaluated now too
	switch fn := call.Fun.(type) {
	case *ast.FuncLit, *ast.Ident:
	case *ast.SelectorExpr:
		// pkg.F or v.M with a plain identifier stay as they are; a receiver expression is evaluated now
		if _, isIdent := fn.X.(*ast.Ident); !isIdent {
			fn.X = hoist(fn.X)
		}
	default:
		call.Fun = hoist(call.Fun)
	}
	for i, a := range call.Args {
		call.Args[i] = hoist(a)
	}
	spawn := &ast.ExprStmt{X: &ast.CallExpr{
		Fun:  &ast.SelectorExpr{X: ast.NewIdent(r.pkg), Sel: ast.NewIdent("Go")},
		Args: []ast.Expr{&ast.FuncLit{Type: &ast.FuncType{Params: &ast.FieldList{}}, Body: &ast.BlockStmt{List: []ast.Stmt{&ast.ExprStmt{X: call}}}}},
	}}
	if len(pre) == 0 {
		return spawn
	}
	return &ast.BlockStmt{List: append(pre, spawn)}
}

func addImport(f *ast.File, name, path string) {
	spec := &ast.ImportSpec{Name: ast.NewIdent(name), Path: &ast.BasicLit{Kind: token.STRING, Value: strconv.Quote(path)}}
	for _, d := range f.Decls {
		if gd, ok := d.(*ast.GenDecl); ok && gd.Tok == token.IMPORT {
			gd.Specs = append(gd.Specs, spec)
			if !gd.Lparen.IsValid() {
				gd.Lparen = gd.Pos()
				gd.Rparen = gd.End()
			}
			f.Imports = append(f.Imports, spec)
			return
		}
	}
	gd := &ast.GenDecl{Tok: token.IMPORT, Specs: []ast.Spec{spec}}
	f.Decls = append([]ast.Decl{gd}, f.Decls...)
	f.Imports = append(f.Imports, spec)
}
