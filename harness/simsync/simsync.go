// Package simsync stands in for package sync in the code under test of the
// scheduled worlds (import rewritten at build time, see DESIGN.md 2.5). Mutex,
// RWMutex and Cond are scheduler-aware: they keep the logical lock state, turn
// every operation into a scheduling point and park the calling task when it
// would block - and they ALSO perform the real operation (uncontended by
// construction) so that the race detector sees exactly the program's own
// synchronisation. Outside a scheduled run they behave as plain sync.
package simsync

import (
	"fmt"
	"sync"

	"verifsim/sched"
)

// Aliases for everything that needs no scheduling.
type (
	Locker = sync.Locker
	Once   = sync.Once
	Map    = sync.Map
	Pool   = sync.Pool
)

// OnceFunc and friends are passed through.
var (
	OnceFunc = sync.OnceFunc
)

var nextID int

//go:norace
func newID() int { nextID++; return nextID }

// Mutex is a scheduler-aware sync.Mutex.
type Mutex struct {
	real sync.Mutex
	held bool
	id   int
}

//go:norace
func (m *Mutex) name() string {
	if m.id == 0 {
		m.id = newID()
	}
	return fmt.Sprintf("mutex#%d", m.id)
}

// SimName describes the object in deadlock reports.
func (m *Mutex) SimName() string { return m.name() }

//go:norace
func (m *Mutex) acquire(s *sched.Sched) {
	s.Yield("lock?", m.name())
	for m.held && !s.Over() {
		s.Wait(m, "lockwait")
	}
	m.held = true
	s.Note("lock", m.name())
}

//go:norace
func (m *Mutex) release(s *sched.Sched) {
	m.held = false
	s.Wake(m)
	s.Yield("unlock", m.name())
}

// Lock locks m.
func (m *Mutex) Lock() {
	if s := sched.Active(); s != nil {
		m.acquire(s)
	}
	m.real.Lock()
}

// TryLock tries to lock m.
func (m *Mutex) TryLock() bool {
	if s := sched.Active(); s != nil {
		return m.tryAcquire(s) && m.real.TryLock()
	}
	return m.real.TryLock()
}

//go:norace
func (m *Mutex) tryAcquire(s *sched.Sched) bool {
	s.Yield("trylock", m.name())
	if m.held {
		return false
	}
	m.held = true
	return true
}

// Unlock unlocks m.
func (m *Mutex) Unlock() {
	m.real.Unlock()
	if s := sched.Active(); s != nil {
		m.release(s)
	}
}

// RWMutex is a scheduler-aware sync.RWMutex.
type RWMutex struct {
	real    sync.RWMutex
	writer  bool
	readers int
	id      int
}

//go:norace
func (m *RWMutex) name() string {
	if m.id == 0 {
		m.id = newID()
	}
	return fmt.Sprintf("rwmutex#%d", m.id)
}

// SimName describes the object in deadlock reports.
func (m *RWMutex) SimName() string { return m.name() }

//go:norace
func (m *RWMutex) acquireW(s *sched.Sched) {
	s.Yield("lock?", m.name())
	for (m.writer || m.readers > 0) && !s.Over() {
		s.Wait(m, "lockwait")
	}
	m.writer = true
	s.Note("lock", m.name())
}

//go:norace
func (m *RWMutex) acquireR(s *sched.Sched) {
	s.Yield("rlock?", m.name())
	for m.writer && !s.Over() {
		s.Wait(m, "rlockwait")
	}
	m.readers++
	s.Note("rlock", m.name())
}

//go:norace
func (m *RWMutex) releaseW(s *sched.Sched) {
	m.writer = false
	s.Wake(m)
	s.Yield("unlock", m.name())
}

//go:norace
func (m *RWMutex) releaseR(s *sched.Sched) {
	m.readers--
	s.Wake(m)
	s.Yield("runlock", m.name())
}

func (m *RWMutex) Lock() {
	if s := sched.Active(); s != nil {
		m.acquireW(s)
	}
	m.real.Lock()
}

func (m *RWMutex) Unlock() {
	m.real.Unlock()
	if s := sched.Active(); s != nil {
		m.releaseW(s)
	}
}

func (m *RWMutex) RLock() {
	if s := sched.Active(); s != nil {
		m.acquireR(s)
	}
	m.real.RLock()
}

func (m *RWMutex) RUnlock() {
	m.real.RUnlock()
	if s := sched.Active(); s != nil {
		m.releaseR(s)
	}
}

// RLocker returns a Locker for the read side.
func (m *RWMutex) RLocker() Locker { return (*rlocker)(m) }

type rlocker RWMutex

func (r *rlocker) Lock()   { (*RWMutex)(r).RLock() }
func (r *rlocker) Unlock() { (*RWMutex)(r).RUnlock() }

// Cond is a scheduler-aware sync.Cond. Under the scheduler it knows exactly
// which tasks are parked on it (used by the C20 oracle).
type Cond struct {
	L        Locker
	realOnce sync.Once
	real     *sync.Cond
	waiters  []*waiter
	id       int
}

type waiter struct {
	task     *sched.Task
	signaled bool
}

// NewCond returns a new Cond with Locker l.
func NewCond(l Locker) *Cond { return &Cond{L: l} }

//go:norace
func (c *Cond) name() string {
	if c.id == 0 {
		c.id = newID()
	}
	return fmt.Sprintf("cond#%d", c.id)
}

// SimName describes the object in deadlock reports.
func (c *Cond) SimName() string { return c.name() }

func (c *Cond) plain() *sync.Cond {
	c.realOnce.Do(func() { c.real = sync.NewCond(c.L) })
	return c.real
}

// Wait atomically unlocks c.L and suspends the calling task.
func (c *Cond) Wait() {
	s := sched.Active()
	if s == nil {
		c.plain().Wait()
		return
	}
	w := c.enqueue(s)
	c.L.Unlock()
	c.park(s, w)
	c.L.Lock()
}

//go:norace
func (c *Cond) enqueue(s *sched.Sched) *waiter {
	w := &waiter{task: s.Current()}
	c.waiters = append(c.waiters, w)
	s.Note("condpark", c.name())
	if OnCondPark != nil {
		OnCondPark(c, s.Current())
	}
	return w
}

//go:norace
func (c *Cond) park(s *sched.Sched, w *waiter) {
	for !w.signaled && !s.Over() {
		s.Wait(c, "condwait")
	}
	s.Note("condwake", c.name())
}

// Broadcast wakes all tasks waiting on c.
func (c *Cond) Broadcast() {
	s := sched.Active()
	if s == nil {
		c.plain().Broadcast()
		return
	}
	c.wake(s, len(c.waitersSnapshot()))
}

// Signal wakes one task waiting on c.
func (c *Cond) Signal() {
	s := sched.Active()
	if s == nil {
		c.plain().Signal()
		return
	}
	c.wake(s, 1)
}

//go:norace
func (c *Cond) waitersSnapshot() []*waiter { return c.waiters }

//go:norace
func (c *Cond) wake(s *sched.Sched, n int) {
	var woken []*sched.Task
	for n > 0 && len(c.waiters) > 0 {
		w := c.waiters[0]
		c.waiters = c.waiters[1:]
		w.signaled = true
		woken = append(woken, w.task)
		n--
	}
	if OnCondWake != nil {
		OnCondWake(c, s.Current(), woken)
	}
	s.Wake(c)
	s.Yield("condsignal", c.name())
}

// Waiters returns the tasks currently parked on c (scheduled runs only).
//
//go:norace
func (c *Cond) Waiters() []*sched.Task {
	var out []*sched.Task
	for _, w := range c.waiters {
		out = append(out, w.task)
	}
	return out
}

// Hooks for oracles (set by the harness, called from scheduler context).
var (
	OnCondPark func(c *Cond, t *sched.Task)
	OnCondWake func(c *Cond, by *sched.Task, woken []*sched.Task)
)
