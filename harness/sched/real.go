package sched

import (
	"fmt"
	"os"
	"runtime"
	"runtime/metrics"
	"strconv"
	"strings"
	"sync/atomic"
	"time"
)

// Real blocking regions.
//
// A channel operation of the code under test cannot be simulated by the token scheduler: the channel is a real Go
// channel, possibly shared with code that is not rewritten (context, timers). Such an operation is therefore executed
// for real, but around it the task gives the token back (EnterReal) and asks for it again (ExitReal), so that a task
// parked in the Go runtime never holds the token. Between the two calls the task executes nothing but the operation.
//
// What makes this deterministic is settle(): before any scheduling decision the scheduler waits until every task
// inside a real blocking region has either come out of it (flag set by ExitReal) or is parked in the Go runtime (its
// goroutine's wait status, read from runtime.Stack, is a waiting one). At that moment no code under test is running -
// the only runnable goroutine of the run is the one calling settle - so the set of runnable tasks is a function of the
// decisions taken so far. Which of several parked receivers a send wakes is decided by the Go runtime in FIFO order of
// parking, and tasks park one at a time.
//
// A state in which unfinished tasks exist, none is runnable and some are parked in channel operations is a deadlock of
// the code under test unless something outside the scheduler can still complete the operation: a real timer or a
// context deadline the code under test created (TimeSources). In that case the run is left to the wall-clock guard
// (trouble of the machinery, exit 2), otherwise it is reported as a deadlock after a grace period.

var leakedReal int

// realEver counts the real blocking regions entered in this process.
var realEver int

// LeakedReal counts, for the whole process, the goroutines of finished runs that stayed parked in a channel operation
// (each keeps one descriptor); the worlds stop exploring in this process when there are too many.
//
//go:norace
func LeakedReal() int { return leakedReal }

//go:norace
func curGoid() int64 {
	var buf [64]byte
	n := runtime.Stack(buf[:], false)
	f := strings.Fields(string(buf[:n]))
	if len(f) < 2 {
		return -1
	}
	id, err := strconv.ParseInt(f[1], 10, 64)
	if err != nil {
		return -1
	}
	return id
}

// EnterReal is called by the running task right before an operation that may block in the Go runtime. It returns the
// handle to pass to ExitReal (nil outside a scheduled run).
//
//go:norace
func (s *Sched) EnterReal(kind string) *Task {
	if s.over || s.cur == nil {
		return nil
	}
	t := s.cur
	if t.goid != curGoid() {
		// not the running task: a goroutine outside the scheduler's control
		return nil
	}
	t.state = realblocked
	t.status = ""
	atomic.StoreUint32(&t.completed, 0)
	s.nReal++
	s.RealOps++
	realEver++
	s.record(t, kind, "")
	// The monitor settles and hands the token on. It is woken through a Go channel, not through a pipe: a goroutine
	// inside a system call looks "not running" to quiet(), and this task must count as running until it has parked
	// in its channel operation (or left it). The edge task -> monitor is visible to the race detector, but the
	// monitor touches nothing the code under test shares and passes the token on through raw pipes only.
	s.monCh <- struct{}{}
	return t
}

// ExitReal is called by the task when the operation has completed: it waits for the token.
//
//go:norace
func (s *Sched) ExitReal(t *Task) {
	if t == nil {
		return
	}
	atomic.StoreUint32(&t.completed, 1)
	rawRead(t.rfd)
}

// monitor hands the token on behalf of tasks that entered a real blocking region.
//
//go:norace
func (s *Sched) monitor() {
	for range s.monCh {
		if s.over || s.Deadlock || s.StepCap {
			return
		}
		s.dispatch(&s.mon)
	}
}

//go:norace
func allStacks() map[int64]string {
	buf := make([]byte, 1<<16)
	for {
		n := runtime.Stack(buf, true)
		if n < len(buf) {
			buf = buf[:n]
			break
		}
		buf = make([]byte, 2*len(buf))
	}
	out := map[int64]string{}
	for _, blk := range strings.Split(string(buf), "\n\n") {
		// goroutine 18 [chan receive, 2 minutes]:
		if !strings.HasPrefix(blk, "goroutine ") {
			continue
		}
		line := blk
		if i := strings.IndexByte(blk, '\n'); i >= 0 {
			line = blk[:i]
		}
		a := strings.IndexByte(line, '[')
		b := strings.LastIndexByte(line, ']')
		if a < 0 || b < a {
			continue
		}
		id, err := strconv.ParseInt(strings.TrimSpace(line[len("goroutine "):a]), 10, 64)
		if err != nil {
			continue
		}
		out[id] = line[a+1 : b]
	}
	return out
}

// parked reports whether a goroutine wait status means "waiting in the Go runtime for another goroutine".
func parked(status string) bool {
	for _, p := range []string{"chan receive", "chan send", "select", "semacquire", "sync.", "sleep", "IO wait"} {
		if strings.HasPrefix(status, p) {
			return true
		}
	}
	return false
}

// quiet reports whether, apart from the calling goroutine, no goroutine of the process is running or ready to run
// (runtime/metrics of go1.26: run queues and P states). At such a moment every task inside a real blocking region that
// has not set its flag is parked: a task woken by a channel operation is put on a run queue by that very operation.
//
//go:norace
func quiet() bool {
	metrics.Read(quietSamples[:])
	if quietSamples[0].Value.Kind() != metrics.KindUint64 || quietSamples[1].Value.Kind() != metrics.KindUint64 {
		return false
	}
	return quietSamples[0].Value.Uint64() == 0 && quietSamples[1].Value.Uint64() <= 1
}

var quietSamples = [2]metrics.Sample{{Name: "/sched/goroutines/runnable:goroutines"}, {Name: "/sched/goroutines/running:goroutines"}}

// settle waits until every task inside a real blocking region has left it or is parked in the Go runtime, and makes
// the ones that left it runnable.
//
//go:norace
func (s *Sched) settle() {
	start := time.Now()
	for spins := 0; ; spins++ {
		pending := 0
		for _, t := range s.tasks {
			if t.state != realblocked {
				continue
			}
			if atomic.LoadUint32(&t.completed) == 1 {
				t.state = runnable
				t.status = ""
				s.nReal--
				continue
			}
			pending++
		}
		if pending == 0 {
			return
		}
		settled := quiet()
		if settled && runtime.GOMAXPROCS(0) > 1 {
			// With several Ps the counters are read P by P while goroutines move between run queues (a P that was
			// idle when it was looked at may steal a goroutine from a queue that is looked at later): one reading is
			// only approximate (seen as 3 diverging executions in 450 at GOMAXPROCS 16). A goroutine in transit is in
			// a queue or running a moment later: three quiet readings in a row are required. (Confirming with the world
			// stopped - runtime.Stack(all) - is exact but far too slow once finished runs have left goroutines behind.)
			// With one P - how the workers run - a single reading is exact: the caller occupies the only P.
			for k := 0; k < 2 && settled; k++ {
				settled = quiet()
			}
		}
		if !settled && spins > 0 && spins%400 == 0 {
			// the process is not quiet for some other reason (a busy goroutine that has nothing to do with the run):
			// look at the goroutines themselves
			dump := allStacks()
			settled = true
			for _, t := range s.tasks {
				if t.state == realblocked && atomic.LoadUint32(&t.completed) == 0 && !parked(dump[t.goid]) {
					settled = false
				}
			}
		}
		if settled {
			// a flag may have been set between the first look and the quiet moment
			again := false
			for _, t := range s.tasks {
				if t.state == realblocked && atomic.LoadUint32(&t.completed) == 1 {
					again = true
				}
			}
			if again {
				continue
			}
			for _, t := range s.tasks {
				if t.state == realblocked && t.status == "" {
					t.status = "parked"
					s.RealParked++
					if s.OnRealPark != nil {
						s.OnRealPark(t)
					}
				}
			}
			return
		}
		if spins < 100 {
			runtime.Gosched()
		} else {
			time.Sleep(20 * time.Microsecond)
		}
		if spins > 1000 && time.Since(start) > 120*time.Second {
			fmt.Fprintf(os.Stderr, "VERIF-STALL: a task inside a channel operation neither completed nor parked within 120 s\n")
			os.Exit(97)
		}
	}
}

// graceWait is called when no task is runnable while some are parked in channel operations: it gives goroutines
// outside the scheduler (there are none in the code under test itself, but the operation may involve the standard
// library) a moment to complete one, and reports whether a task became runnable. When the code under test created
// timers or deadlines the scheduler does not control, the run is ended after three seconds and marked TimeStall: no
// verdict about completion is drawn from it.
//
//go:norace
func (s *Sched) graceWait() bool {
	const nap = time.Millisecond
	limit := 300
	if s.TimeSources > 0 {
		limit = 3000
	}
	good := 0
	for good < limit {
		t0 := time.Now()
		time.Sleep(nap)
		if time.Since(t0) < 20*nap {
			good++
		}
		for _, t := range s.tasks {
			if t.state == realblocked && atomic.LoadUint32(&t.completed) == 1 {
				s.settle()
				return true
			}
		}
	}
	if s.TimeSources > 0 {
		// Something outside the scheduler (a ticker, a re-armed timer, a context deadline of the code under test) may
		// still complete the operation - in real time, which a scheduled run does not have. The run ends here without a
		// verdict about completion; what the oracles recorded so far stands.
		s.TimeStall = true
	}
	return false
}

// InReal reports whether the task is inside a real blocking region that it has not left through ExitReal.
//
//go:norace
func (s *Sched) InReal(t *Task) bool {
	return t != nil && !s.over && (t.state == realblocked) && atomic.LoadUint32(&t.completed) == 0
}

// AddTimeSource notes that the code under test created a timer or deadline the scheduler does not control.
//
//go:norace
func (s *Sched) AddTimeSource() { s.TimeSources++ }
