package worldw

import (
	"crypto/rand"
	"crypto/x509"
	"crypto/x509/pkix"
	"math/big"
	"sync"
	"time"

	"verifsim/keys"
)

var (
	certOnce sync.Once
	certDER  []byte
)

// testCertDER is a self-signed P-256 certificate used as slot certificate.
func testCertDER() []byte {
	certOnce.Do(func() {
		k := keys.EC(256, "slotcert")
		tmpl := &x509.Certificate{
			SerialNumber: big.NewInt(42),
			Subject:      pkix.Name{CommonName: "verif slot"},
			NotBefore:    time.Date(1999, 1, 1, 0, 0, 0, 0, time.UTC),
			NotAfter:     time.Date(2100, 1, 1, 0, 0, 0, 0, time.UTC),
		}
		der, err := x509.CreateCertificate(rand.Reader, tmpl, tmpl, k.Public(), k)
		if err != nil {
			panic(err)
		}
		certDER = der
	})
	return certDER
}
