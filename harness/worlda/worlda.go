// Package worlda is the attestation world: a generated PKI (root pool, other
// CA, device "f9" certificate), slot certificates whose outer signature is
// replaced by EM^d mod N for a chosen encoded message, and Attest called at
// chosen instants of the simulated clock (chain verification reads time.Now).
package worlda

import (
	"crypto"
	"crypto/rand"
	"crypto/rsa"
	_ "crypto/sha1"
	_ "crypto/sha256"
	_ "crypto/sha512"
	"crypto/x509"
	"crypto/x509/pkix"
	"encoding/json"
	"encoding/pem"
	"fmt"
	"math/big"
	"os"
	"path/filepath"
	"strings"
	"testing"
	"time"

	"github.com/theparanoids/ysshra/attestation/yubiattest"

	"verifsim/keys"
	"verifsim/sim"
)

// APlan is one attestation world.
type APlan struct {
	Bits      int     `json:"bits"`              // RSA device key size; 0: ECDSA device key
	KeyTag    string  `json:"key_tag,omitempty"` // a special device key instead (public exponent 3 / 17 / 257, modulus of 5120 / 8192 bits)
	Chain     string  `json:"chain"`             // root | second_root | other_ca | lookalike_ca (foreign CA carrying the first root's name) | self_signed
	DevWindow string  `json:"dev_window"`        // valid | expired | not_yet | lapsing
	LapseSec  int64   `json:"lapse_sec"`
	Hash      string  `json:"hash"`    // sha1 | sha256 | sha384 | sha512 | md5
	Label     string  `json:"label"`   // rsa (matching the hash) | md2 | md5 | ecdsa | dsa | unknown | pss | rsa_other (RSA label of another hash)
	Variant   string  `json:"variant"` // null | nonull
	Mutation  string  `json:"mutation"`
	Pos       int     `json:"pos"`
	Val       int     `json:"val"`
	Clock     []int64 `json:"clock"` // seconds after the epoch at which Attest is called (non-decreasing)
	// CritExt: the device certificate carries an unknown critical extension (chain validation reports it before
	// anything else; a device certificate that does not chain must be refused all the same)
	CritExt bool `json:"crit_ext,omitempty"`
	// Prior: before every judged call the same Attestor attests a genuine device (issued by the first root, same
	// serial number and subject as the judged device certificate) with an honestly signed slot certificate
	Prior bool `json:"prior,omitempty"`
	// FromFiles: the Attestor is built by NewAttestor from two PEM files (one root each, with text around the
	// PEM blocks) instead of from a ready-made pool
	FromFiles bool `json:"from_files,omitempty"`
	// Genuine: the slot certificate carries the honest signature its device key made in a scheme the attestation
	// does not admit: ECDSA / Ed25519 device keys, or RSASSA-PSS by an RSA device key (mutation genuine_pss)
	Genuine bool `json:"genuine,omitempty"`
}

var digestInfo = map[string][2][]byte{ // with NULL, without NULL
	"md5":    {{0x30, 0x20, 0x30, 0x0c, 0x06, 0x08, 0x2a, 0x86, 0x48, 0x86, 0xf7, 0x0d, 0x02, 0x05, 0x05, 0x00, 0x04, 0x10}, {0x30, 0x1e, 0x30, 0x0a, 0x06, 0x08, 0x2a, 0x86, 0x48, 0x86, 0xf7, 0x0d, 0x02, 0x05, 0x04, 0x10}},
	"sha1":   {{0x30, 0x21, 0x30, 0x09, 0x06, 0x05, 0x2b, 0x0e, 0x03, 0x02, 0x1a, 0x05, 0x00, 0x04, 0x14}, {0x30, 0x1f, 0x30, 0x07, 0x06, 0x05, 0x2b, 0x0e, 0x03, 0x02, 0x1a, 0x04, 0x14}},
	"sha256": {{0x30, 0x31, 0x30, 0x0d, 0x06, 0x09, 0x60, 0x86, 0x48, 0x01, 0x65, 0x03, 0x04, 0x02, 0x01, 0x05, 0x00, 0x04, 0x20}, {0x30, 0x2f, 0x30, 0x0b, 0x06, 0x09, 0x60, 0x86, 0x48, 0x01, 0x65, 0x03, 0x04, 0x02, 0x01, 0x04, 0x20}},
	"sha384": {{0x30, 0x41, 0x30, 0x0d, 0x06, 0x09, 0x60, 0x86, 0x48, 0x01, 0x65, 0x03, 0x04, 0x02, 0x02, 0x05, 0x00, 0x04, 0x30}, {0x30, 0x3f, 0x30, 0x0b, 0x06, 0x09, 0x60, 0x86, 0x48, 0x01, 0x65, 0x03, 0x04, 0x02, 0x02, 0x04, 0x30}},
	"sha512": {{0x30, 0x51, 0x30, 0x0d, 0x06, 0x09, 0x60, 0x86, 0x48, 0x01, 0x65, 0x03, 0x04, 0x02, 0x03, 0x05, 0x00, 0x04, 0x40}, {0x30, 0x4f, 0x30, 0x0b, 0x06, 0x09, 0x60, 0x86, 0x48, 0x01, 0x65, 0x03, 0x04, 0x02, 0x03, 0x04, 0x40}},
}

var hashOf = map[string]crypto.Hash{"md5": crypto.MD5, "sha1": crypto.SHA1, "sha256": crypto.SHA256, "sha384": crypto.SHA384, "sha512": crypto.SHA512}

var rsaLabel = map[string]x509.SignatureAlgorithm{"sha1": x509.SHA1WithRSA, "sha256": x509.SHA256WithRSA, "sha384": x509.SHA384WithRSA, "sha512": x509.SHA512WithRSA, "md5": x509.MD5WithRSA}

var mutations = []string{"none", "none", "none", "pad_byte", "pad_byte", "block_type", "leading", "separator", "trailing_garbage", "shift_left", "short_pad_zero_tail",
	"digestinfo_byte", "digestinfo_byte", "digest_byte", "other_hash_info", "wrong_digest", "sig_bit", "tbs_bit", "no_padding", "all_zero_pad",
	"sig_extra_tail", "sig_truncated", "sig_leading_zero", "digestinfo_trailing_in_seq", "algid_trailing", "only_digestinfo", "genuine_pss", "short_em", "short_em"}

func pick[T any](r *sim.Rng, xs []T) T { return xs[r.Intn(len(xs))] }

func genA(r *sim.Rng, tier string) any {
	p := &APlan{Bits: pick(r, []int{1024, 1024, 1536, 2048, 2048, 2048, 3072, 4096, 0, -1}), Chain: pick(r, []string{"root", "root", "root", "second_root", "other_ca", "lookalike_ca", "self_signed"}),
		DevWindow: pick(r, []string{"valid", "valid", "valid", "lapsing", "expired", "not_yet", "starting"}), Hash: pick(r, []string{"sha1", "sha256", "sha256", "sha384", "sha512"}),
		Label: "rsa", Variant: pick(r, []string{"null", "nonull"}), Mutation: pick(r, mutations)}
	if tier == "quick" && p.Bits > 2048 && r.Bool(0.7) {
		p.Bits = 2048
	}
	if p.Bits != 0 {
		switch {
		case r.Bool(0.08):
			p.KeyTag = pick(r, []string{"e3-1024", "e3-2048", "e17-2048", "e257-1536"})
		case r.Bool(0.012) || (tier != "quick" && r.Bool(0.03)):
			p.KeyTag = pick(r, []string{"b5120", "b8192"})
		}
	}
	if r.Bool(0.2) {
		p.Label = pick(r, []string{"md2", "md5", "ecdsa", "dsa", "unknown", "pss", "rsa_other", "ed25519"})
		if p.Label == "md5" && r.Bool(0.7) {
			p.Hash = "md5" // a perfectly formed MD5 message under the MD5 label must still be refused
		}
	}
	p.Pos = r.Intn(4096)
	p.Val = r.Intn(256)
	p.CritExt = r.Bool(0.12)
	p.Prior = r.Bool(0.3)
	p.FromFiles = r.Bool(0.3)
	p.Genuine = r.Bool(0.5)
	p.LapseSec = int64(2*r.Range(50, 5000) + 1)
	switch r.Intn(4) {
	case 0:
		p.Clock = []int64{0}
	case 1:
		p.Clock = []int64{0, p.LapseSec - 1, p.LapseSec + 1}
	case 2:
		p.Clock = []int64{int64(r.Range(0, 1000)), 40 * 365 * 86400} // far beyond the root's validity
	default:
		p.Clock = []int64{p.LapseSec + 1, p.LapseSec + 2}
	}
	if p.DevWindow == "valid" && r.Bool(0.15) {
		// seconds to minutes around the moment the root expires (the device certificate is valid throughout)
		p.DevWindow = "outlives_root"
		end := int64(20 * 365 * 86400)
		p.Clock = []int64{end - int64(r.Range(1, 500)), end + 1, end + int64(r.Range(2, 500))}
	}
	if p.DevWindow == "starting" {
		// around the first valid instant: minutes before, one second before, from then on
		p.Clock = []int64{max(p.LapseSec-int64(r.Range(2, 400)), 0), p.LapseSec - 1, p.LapseSec, p.LapseSec + 1}
	}
	return p
}

func shrinkA(raw json.RawMessage) []json.RawMessage {
	var p APlan
	if json.Unmarshal(raw, &p) != nil {
		return nil
	}
	var out []json.RawMessage
	emit := func(q APlan) { b, _ := json.Marshal(q); out = append(out, b) }
	if len(p.Clock) > 1 {
		for i := range p.Clock {
			q := p
			q.Clock = append(append([]int64(nil), p.Clock[:i]...), p.Clock[i+1:]...)
			emit(q)
		}
	}
	if p.Bits > 1024 && p.KeyTag == "" {
		q := p
		q.Bits = 1024
		emit(q)
	}
	if p.KeyTag != "" {
		q := p
		q.KeyTag = ""
		emit(q)
	}
	if p.Chain != "root" {
		q := p
		q.Chain = "root"
		emit(q)
	}
	if p.DevWindow != "valid" {
		q := p
		q.DevWindow = "valid"
		emit(q)
	}
	if p.Prior {
		q := p
		q.Prior = false
		emit(q)
	}
	return out
}

var (
	rootFrom = sim.Epoch.Add(-365 * 24 * time.Hour)
	rootTo   = sim.Epoch.Add(20 * 365 * 24 * time.Hour)
)

func mkCA(label string) (*x509.Certificate, crypto.Signer) { return mkNamedCA(label, label) }

// mkNamedCA creates a self-signed CA with the key of keyLabel and the subject name of nameLabel.
func mkNamedCA(keyLabel, nameLabel string) (*x509.Certificate, crypto.Signer) {
	k := keys.EC(256, "attest-ca:"+keyLabel)
	t := &x509.Certificate{SerialNumber: big.NewInt(int64(len(nameLabel)) + 5), Subject: pkix.Name{CommonName: "Verif PIV Root " + nameLabel},
		NotBefore: rootFrom, NotAfter: rootTo, IsCA: true, BasicConstraintsValid: true, KeyUsage: x509.KeyUsageCertSign}
	der, err := x509.CreateCertificate(rand.Reader, t, t, k.Public(), k)
	if err != nil {
		panic(err)
	}
	c, _ := x509.ParseCertificate(der)
	return c, k
}

// em builds the encoded message for the plan. ok=false: the mutation is not
// applicable to this key size (skip).
func buildEM(p *APlan, k int, tbs []byte) (em []byte, wellFormed bool, ok bool) {
	h := hashOf[p.Hash]
	hh := h.New()
	hh.Write(tbs)
	digest := hh.Sum(nil)
	vi := 0
	if p.Variant == "nonull" {
		vi = 1
	}
	prefix := append([]byte(nil), digestInfo[p.Hash][vi]...)
	t := append(prefix, digest...)
	if k < len(t)+11 {
		return nil, false, false
	}
	em = make([]byte, k)
	em[1] = 1
	padEnd := k - len(t) - 1 // index of the separator
	for i := 2; i < padEnd; i++ {
		em[i] = 0xff
	}
	copy(em[padEnd+1:], t)
	wellFormed = true
	npad := padEnd - 2
	switch p.Mutation {
	case "none", "sig_bit", "tbs_bit", "sig_extra_tail", "sig_truncated", "sig_leading_zero", "genuine_pss":
	case "pad_byte":
		j := 2 + p.Pos%npad
		v := byte(p.Val)
		if v == 0xff {
			v = 0xfe
		}
		em[j] = v
		wellFormed = false
	case "block_type":
		v := byte(p.Val)
		if v == 1 {
			v = 2
		}
		em[1] = v
		wellFormed = false
	case "leading":
		em[0] = 1 // a value below the modulus' top byte for every pooled key (top byte >= 0x80)
		wellFormed = false
	case "separator":
		v := byte(p.Val)
		if v == 0 {
			v = 0xff
		}
		em[padEnd] = v
		wellFormed = false
	case "trailing_garbage":
		// 00 01 FF..FF 00 T garbage: padding shortened, garbage after the digest
		g := 1 + p.Pos%min(npad-8, 64)
		copy(em[2:], make([]byte, k-2))
		for i := 2; i < padEnd-g; i++ {
			em[i] = 0xff
		}
		em[padEnd-g] = 0
		copy(em[padEnd-g+1:], t)
		for i := k - g; i < k; i++ {
			em[i] = byte(p.Val + i)
		}
		wellFormed = false
	case "shift_left":
		// T moved one byte to the left, last byte zero
		copy(em[padEnd:], t)
		em[padEnd-1] = 0
		em[k-1] = 0
		wellFormed = false
	case "short_em":
		// a well-formed looking message that is shorter than the modulus: leading zero octets, then 01 FF{j} 00 T with
		// 8 <= j < the full padding length (as an integer this is a small value: the structure starts late)
		if npad < 10 {
			return nil, false, false
		}
		j := 8 + p.Pos%(npad-8)
		if j >= npad {
			j = npad - 1
		}
		copy(em, make([]byte, k))
		start := k - len(t) - 1 - j - 1 // index of the 01 octet
		em[start] = 1
		for i := start + 1; i <= start+j; i++ {
			em[i] = 0xff
		}
		copy(em[start+j+2:], t)
		wellFormed = false
	case "short_pad_zero_tail":
		// only 8 bytes of padding, the rest of the message zero-filled before T
		for i := 10; i < padEnd; i++ {
			em[i] = 0
		}
		wellFormed = false
	case "digestinfo_byte":
		j := p.Pos % len(prefix)
		em[padEnd+1+j] ^= byte(1 << (p.Val % 8))
		wellFormed = false
	case "digest_byte":
		j := p.Pos % len(digest)
		em[padEnd+1+len(prefix)+j] ^= byte(1 << (p.Val % 8))
		wellFormed = false
	case "other_hash_info":
		// DigestInfo of another hash in front of this hash's digest (same length only for none; lengths differ, so rebuild)
		other := "sha1"
		if p.Hash == "sha1" {
			other = "sha256"
		}
		op := digestInfo[other][vi]
		t2 := append(append([]byte(nil), op...), digest...)
		if k < len(t2)+11 {
			return nil, false, false
		}
		copy(em[2:], make([]byte, k-2))
		pe := k - len(t2) - 1
		for i := 2; i < pe; i++ {
			em[i] = 0xff
		}
		copy(em[pe+1:], t2)
		wellFormed = false
	case "digestinfo_trailing_in_seq", "algid_trailing":
		// a DigestInfo that is still a length-consistent DER value, with further octets inside the outer SEQUENCE
		// (after the digest) or inside the AlgorithmIdentifier (after the parameters); the FF run is shortened to fit
		g := 1 + p.Pos%8
		extra := make([]byte, g)
		for i := range extra {
			extra[i] = byte(p.Val + i)
		}
		if p.Val%3 == 0 {
			extra = append([]byte{0x05, byte(g - 1)}, make([]byte, g-1)...)[:g] // looks like another NULL / primitive
			if g == 1 {
				extra = []byte{0x00}
			}
		}
		pf := append([]byte(nil), prefix...)
		var t2 []byte
		if p.Mutation == "digestinfo_trailing_in_seq" {
			pf[1] += byte(g)
			t2 = append(append(pf, digest...), extra...)
		} else {
			end := 4 + int(pf[3]) // end of the AlgorithmIdentifier contents
			pf[1] += byte(g)
			pf[3] += byte(g)
			t2 = append(append(append(append([]byte(nil), pf[:end]...), extra...), pf[end:]...), digest...)
		}
		if k < len(t2)+11 || int(prefix[1])+g > 127 {
			return nil, false, false
		}
		copy(em[2:], make([]byte, k-2))
		pe := k - len(t2) - 1
		for i := 2; i < pe; i++ {
			em[i] = 0xff
		}
		copy(em[pe+1:], t2)
		wellFormed = false
	case "only_digestinfo":
		// no block type, no padding: zeros up to the DigestInfo
		copy(em, make([]byte, k-len(t)))
		wellFormed = false
	case "wrong_digest":
		hh := h.New()
		hh.Write(append([]byte("x"), tbs...))
		copy(em[padEnd+1+len(prefix):], hh.Sum(nil))
		wellFormed = false
	case "no_padding":
		// 00 01 00 T right-aligned with zeros in between is not expressible; use 00 01 00 then T directly followed by FF fill
		copy(em[2:], make([]byte, k-2))
		em[2] = 0
		copy(em[3:], t)
		for i := 3 + len(t); i < k; i++ {
			em[i] = 0xff
		}
		wellFormed = false
	case "all_zero_pad":
		for i := 2; i < padEnd; i++ {
			em[i] = 0
		}
		wellFormed = false
	}
	return em, wellFormed, true
}

// rsaPrivate computes m^d mod N with the Chinese remainder theorem (large keys would otherwise dominate the run).
func rsaPrivate(k *rsa.PrivateKey, m *big.Int) *big.Int {
	if len(k.Primes) != 2 {
		return new(big.Int).Exp(m, k.D, k.N)
	}
	p, q := k.Primes[0], k.Primes[1]
	one := big.NewInt(1)
	dp := new(big.Int).Mod(k.D, new(big.Int).Sub(p, one))
	dq := new(big.Int).Mod(k.D, new(big.Int).Sub(q, one))
	m1 := new(big.Int).Exp(m, dp, p)
	m2 := new(big.Int).Exp(m, dq, q)
	qinv := new(big.Int).ModInverse(q, p)
	h := new(big.Int).Sub(m1, m2)
	h.Mul(h, qinv)
	h.Mod(h, p)
	h.Mul(h, q)
	return h.Add(h, m2)
}

func execA(t *testing.T, raw json.RawMessage) *sim.Outcome {
	o := &sim.Outcome{}
	var p APlan
	if err := json.Unmarshal(raw, &p); err != nil {
		o.Fail("harness.plan", "unmarshal", 0, "%v", err)
		return o
	}
	root1, rk1 := mkCA("one")
	root2, rk2 := mkCA("two")
	other, ok3 := mkCA("foreign")
	look, lk := mkNamedCA("lookalike", "one")
	pool := x509.NewCertPool()
	pool.AddCert(root1)
	pool.AddCert(root2)
	att := yubiattest.NewAttestorWithCAPool(pool)
	if p.FromFiles {
		dir, err := os.MkdirTemp(os.Getenv("VERIF_TMP"), "a-")
		if err != nil {
			o.Fail("harness.tmp", "mkdtemp", 0, "%v", err)
			return o
		}
		defer os.RemoveAll(dir)
		f1, f2 := filepath.Join(dir, "piv-root.pem"), filepath.Join(dir, "u2f-root.pem")
		os.WriteFile(f1, append([]byte("Yubico PIV Root CA (simulated)\n"), pem.EncodeToMemory(&pem.Block{Type: "CERTIFICATE", Bytes: root1.Raw})...), 0o644)
		os.WriteFile(f2, append(pem.EncodeToMemory(&pem.Block{Type: "CERTIFICATE", Bytes: root2.Raw}), []byte("\n# end\n")...), 0o644)
		att, err = yubiattest.NewAttestor(f1, f2)
		if err != nil {
			o.Fail("C06.rejected_valid", "attestor_construction", 0, "NewAttestor refused two well-formed root files: %v", err)
			return o
		}
		o.Probe("attestor_from_pem_files")
	}

	var devPriv crypto.Signer
	var rsaPriv *rsa.PrivateKey
	if p.Bits == 0 {
		devPriv = keys.EC(256, "device")
	} else if p.Bits < 0 {
		devPriv = keys.Ed("device")
	} else {
		rsaPriv = keys.RSA(p.Bits, p.Pos)
		if p.KeyTag != "" {
			rsaPriv = keys.RSASpecial(p.KeyTag)
			p.Bits = rsaPriv.N.BitLen()
		}
		devPriv = rsaPriv
	}
	nb, na := sim.Epoch.Add(-24*time.Hour), sim.Epoch.Add(10*365*24*time.Hour)
	switch p.DevWindow {
	case "expired":
		nb, na = sim.Epoch.Add(-300*24*time.Hour), sim.Epoch.Add(-24*time.Hour)
	case "not_yet":
		nb, na = sim.Epoch.Add(50*365*24*time.Hour), sim.Epoch.Add(51*365*24*time.Hour)
	case "outlives_root":
		na = sim.Epoch.Add(30 * 365 * 24 * time.Hour)
	case "lapsing":
		na = sim.Epoch.Add(time.Duration(p.LapseSec) * time.Second)
	case "starting":
		nb = sim.Epoch.Add(time.Duration(p.LapseSec) * time.Second)
	}
	devT := &x509.Certificate{SerialNumber: big.NewInt(0xf9), Subject: pkix.Name{CommonName: "Yubico PIV Attestation"}, NotBefore: nb, NotAfter: na,
		IsCA: true, BasicConstraintsValid: true, KeyUsage: x509.KeyUsageCertSign | x509.KeyUsageDigitalSignature}
	if p.CritExt {
		devT.ExtraExtensions = []pkix.Extension{{Id: []int{1, 3, 6, 1, 4, 1, 55555, 1, 1}, Critical: true, Value: []byte{0x05, 0x00}}}
	}
	var parent *x509.Certificate
	var parentKey crypto.Signer
	switch p.Chain {
	case "root":
		parent, parentKey = root1, rk1
	case "second_root":
		parent, parentKey = root2, rk2
	case "other_ca":
		parent, parentKey = other, ok3
	case "lookalike_ca":
		parent, parentKey = look, lk
	default:
		parent, parentKey = devT, devPriv
	}
	devDER, err := x509.CreateCertificate(rand.Reader, devT, parent, devPriv.Public(), parentKey)
	if err != nil {
		o.Fail("harness.pki", "device_cert", 0, "%v", err)
		return o
	}
	dev, err := x509.ParseCertificate(devDER)
	if err != nil {
		o.Fail("harness.pki", "device_parse", 0, "%v", err)
		return o
	}
	// slot certificate body
	slotKey := keys.EC(256, "slot-9a")
	slotT := &x509.Certificate{SerialNumber: big.NewInt(int64(p.Pos) + 1), Subject: pkix.Name{CommonName: "YubiKey PIV Attestation 9a"},
		NotBefore: nb, NotAfter: na}
	var tbs []byte
	var genuine *x509.Certificate // honestly signed by a device key / in a scheme that is not admitted
	if rsaPriv != nil {
		slotT.SignatureAlgorithm = x509.SHA256WithRSA
		der, err := x509.CreateCertificate(rand.Reader, slotT, dev, slotKey.Public(), rsaPriv)
		if err != nil {
			o.Fail("harness.pki", "slot_cert", 0, "%v", err)
			return o
		}
		sc, _ := x509.ParseCertificate(der)
		tbs = append([]byte(nil), sc.RawTBSCertificate...)
	} else {
		der, err := x509.CreateCertificate(rand.Reader, slotT, dev, slotKey.Public(), devPriv)
		if err != nil {
			o.Fail("harness.pki", "slot_cert", 0, "%v", err)
			return o
		}
		sc, _ := x509.ParseCertificate(der)
		tbs = append([]byte(nil), sc.RawTBSCertificate...)
		genuine = sc
	}
	if rsaPriv != nil && p.Mutation == "genuine_pss" {
		slotT.SignatureAlgorithm = x509.SHA256WithRSAPSS
		der, err := x509.CreateCertificate(rand.Reader, slotT, dev, slotKey.Public(), rsaPriv)
		if err == nil {
			genuine, _ = x509.ParseCertificate(der)
		}
	}
	label := x509.UnknownSignatureAlgorithm
	labelClass := "reject"
	switch p.Label {
	case "rsa":
		label = rsaLabel[p.Hash]
		labelClass = "rsa"
		if p.Hash == "md5" {
			labelClass = "reject"
		}
	case "rsa_other":
		o2 := "sha256"
		if p.Hash == "sha256" {
			o2 = "sha512"
		}
		label = rsaLabel[o2]
		labelClass = "mismatch"
	case "md2":
		label = x509.MD2WithRSA
	case "md5":
		label = x509.MD5WithRSA
	case "ecdsa":
		label = map[string]x509.SignatureAlgorithm{"sha1": x509.ECDSAWithSHA1, "sha256": x509.ECDSAWithSHA256, "sha384": x509.ECDSAWithSHA384, "sha512": x509.ECDSAWithSHA512, "md5": x509.ECDSAWithSHA256}[p.Hash]
		labelClass = "undecided" // an RSA signature under a non-RSA label with the right digest: not settled by the statement
	case "dsa":
		label = map[string]x509.SignatureAlgorithm{"sha1": x509.DSAWithSHA1, "sha256": x509.DSAWithSHA256, "sha384": x509.DSAWithSHA256, "sha512": x509.DSAWithSHA256, "md5": x509.DSAWithSHA1}[p.Hash]
		labelClass = "undecided"
		if p.Hash == "sha384" || p.Hash == "sha512" || p.Hash == "md5" {
			labelClass = "mismatch"
		}
	case "pss":
		label = x509.SHA256WithRSAPSS
	case "ed25519":
		label = x509.PureEd25519
	}
	var sig []byte
	wellFormed := false
	sigUndecided := false
	if rsaPriv != nil {
		k := (rsaPriv.N.BitLen() + 7) / 8
		em, wf, ok := buildEM(&p, k, tbs)
		if !ok {
			o.Signature = "" // not applicable to this key size
			o.Logf("mutation %s not applicable to %d-bit key", p.Mutation, p.Bits)
			return o
		}
		wellFormed = wf
		m := new(big.Int).SetBytes(em)
		if m.Cmp(rsaPriv.N) >= 0 {
			o.Logf("encoded message not below the modulus: skipped")
			return o
		}
		c := rsaPrivate(rsaPriv, m)
		sig = c.FillBytes(make([]byte, k))
		// self-check of the harness: the crafted signature opens to the intended message
		back := new(big.Int).Exp(c, big.NewInt(int64(rsaPriv.E)), rsaPriv.N).FillBytes(make([]byte, k))
		if string(back) != string(em) {
			o.Fail("harness.rsa", "roundtrip", 0, "crafted signature does not open to the encoded message")
			return o
		}
		if p.Mutation == "sig_bit" {
			orig := append([]byte(nil), sig...)
			sig[p.Pos%len(sig)] ^= byte(1 << (p.Val % 8))
			if new(big.Int).SetBytes(sig).Cmp(rsaPriv.N) >= 0 {
				sig[0] &= 0x3f
			}
			if string(sig) == string(orig) {
				// bringing the value back below the modulus undid the change: alter the other end instead
				sig[len(sig)-1] ^= 1
			}
			wellFormed = false
		}
		sigSameValue := false
		switch p.Mutation {
		case "sig_extra_tail":
			// the genuine signature followed by further octets: another (longer) number
			for i := 0; i <= p.Pos%4; i++ {
				sig = append(sig, byte(p.Val+i))
			}
			wellFormed = false
		case "sig_truncated":
			sig = sig[:len(sig)-1-p.Pos%4]
			wellFormed = false
		case "sig_leading_zero":
			// the same number written with more octets: the statement speaks of the signature value
			sig = append(make([]byte, 1+p.Pos%3), sig...)
			sigSameValue = wellFormed
			wellFormed = false
		}
		sigUndecided = sigSameValue
		if p.Mutation == "tbs_bit" {
			tbs[p.Pos%len(tbs)] ^= byte(1 << (p.Val % 8))
			wellFormed = false
		}
	} else {
		sig = []byte{0x30, 0x06, 0x02, 0x01, 0x01, 0x02, 0x01, 0x01}
	}
	slot := &x509.Certificate{SignatureAlgorithm: label, RawTBSCertificate: tbs, Signature: sig}
	if genuine != nil && (rsaPriv == nil && p.Genuine || rsaPriv != nil && p.Mutation == "genuine_pss") {
		// the whole honest certificate: its signature verifies under the device key, but not as RSA PKCS#1 v1.5
		slot = genuine
		wellFormed = false
		labelClass = "reject"
		p.Label = "genuine:" + genuine.SignatureAlgorithm.String()
	}

	// the genuine device attested first on the same Attestor (Prior)
	var priorDev, priorSlot *x509.Certificate
	if p.Prior {
		pk := keys.RSA(2048, p.Pos+1)
		pT := &x509.Certificate{SerialNumber: big.NewInt(0xf9), Subject: pkix.Name{CommonName: "Yubico PIV Attestation"},
			NotBefore: sim.Epoch.Add(-24 * time.Hour), NotAfter: sim.Epoch.Add(10 * 365 * 24 * time.Hour),
			IsCA: true, BasicConstraintsValid: true, KeyUsage: x509.KeyUsageCertSign | x509.KeyUsageDigitalSignature}
		pder, err := x509.CreateCertificate(rand.Reader, pT, root1, pk.Public(), rk1)
		if err == nil {
			priorDev, err = x509.ParseCertificate(pder)
		}
		if err == nil {
			sT := &x509.Certificate{SerialNumber: big.NewInt(77), Subject: pkix.Name{CommonName: "YubiKey PIV Attestation 9c"},
				NotBefore: pT.NotBefore, NotAfter: pT.NotAfter, SignatureAlgorithm: x509.SHA256WithRSA}
			var sder []byte
			sder, err = x509.CreateCertificate(rand.Reader, sT, priorDev, keys.EC(256, "slot-9c").Public(), pk)
			if err == nil {
				priorSlot, err = x509.ParseCertificate(sder)
			}
		}
		if err != nil {
			o.Fail("harness.pki", "prior_device", 0, "%v", err)
			return o
		}
	}
	var sigParts []string
	fail := sim.InBubble(t, func() {
		for ci, at := range p.Clock {
			if d := time.Until(sim.Epoch.Add(time.Duration(at) * time.Second)); d > 0 {
				time.Sleep(d)
				o.Fault("clock_jump")
			}
			now := time.Now()
			if p.Prior {
				var perr error
				var ppanic any
				func() {
					defer func() { ppanic = recover() }()
					perr = att.Attest(priorDev, priorSlot)
				}()
				pexp := !now.Before(priorDev.NotBefore) && !now.After(priorDev.NotAfter) && !now.Before(rootFrom) && !now.After(rootTo)
				switch {
				case ppanic != nil:
					o.Fail("C06.no_panic", "attest_panic:prior", ci, "Attest panicked on a genuine device: %v", ppanic)
				case perr == nil && !pexp:
					o.Fail("C06.accepted_invalid", "chain:root:prior_outside_window", ci, "Attest accepted a genuine device certificate outside its validity at t=+%ds", at)
				case perr != nil && pexp:
					o.Fail("C06.rejected_valid", "rejected:prior", ci, "Attest refused a genuine device and honestly signed slot certificate at t=+%ds: %v", at, perr)
				default:
					o.Probe("genuine_device_attested_first_on_same_attestor")
				}
			}
			var aerr error
			var panicked any
			func() {
				defer func() { panicked = recover() }()
				aerr = att.Attest(dev, slot)
			}()
			if panicked != nil {
				o.Fail("C06.no_panic", "attest_panic", ci, "Attest panicked: %v", panicked)
				continue
			}
			chainOK := (p.Chain == "root" || p.Chain == "second_root") && !now.Before(dev.NotBefore) && !now.After(dev.NotAfter) &&
				!now.Before(rootFrom) && !now.After(rootTo)
			sigOK := rsaPriv != nil && wellFormed && labelClass == "rsa"
			undecided := rsaPriv != nil && wellFormed && labelClass == "undecided"
			if sigUndecided && (labelClass == "rsa" || labelClass == "undecided") {
				undecided = true
			}
			if p.CritExt && chainOK && sigOK {
				// issued by a root and inside every window, but with an extension chain validation cannot handle:
				// whether that still "chains" is not settled by the statement
				undecided, sigOK = true, false
			}
			expect := chainOK && sigOK
			got := aerr == nil
			tagDesc := ""
			if rsaPriv != nil && p.KeyTag != "" {
				tagDesc = fmt.Sprintf(" key=%s(e=%d)", p.KeyTag, rsaPriv.E)
			}
			desc := fmt.Sprintf("bits=%d"+tagDesc+" chain=%s window=%s t=+%ds hash=%s label=%s variant=%s mutation=%s critical_ext=%v genuine_device_attested_first=%v", p.Bits, p.Chain, p.DevWindow, at, p.Hash, p.Label, p.Variant, p.Mutation, p.CritExt, p.Prior)
			o.Logf("attest %s -> accepted=%v expected=%v", desc, got, expect)
			sigParts = append(sigParts, fmt.Sprintf("%d%s/%s/%s/%v/%s/%s/%s/%s/%v/%v", p.Bits, p.KeyTag, p.Chain, p.DevWindow, chainOK, p.Hash, p.Label, p.Variant, p.Mutation, p.Prior, got))
			switch {
			case got && !expect && !(undecided && chainOK):
				why := "signature:" + p.Mutation + ":" + p.Label
				if !chainOK {
					why = "chain:" + p.Chain + ":" + p.DevWindow
				}
				o.Fail("C06.accepted_invalid", why, ci, "Attest accepted: %s (chain ok=%v, encoded message well-formed=%v, label class %s)", desc, chainOK, wellFormed, labelClass)
			case !got && expect:
				o.Fail("C06.rejected_valid", "rejected:"+p.Variant+":"+p.Hash, ci, "Attest refused a device-signed certificate chaining to the roots: %s: %v", desc, aerr)
			case got:
				o.Probe("accepted_valid_" + p.Variant)
				if p.KeyTag != "" {
					o.Probe("accepted_valid_special_key/" + p.KeyTag)
					o.Probe("accepted_valid_special_key")
				}
			default:
				if !chainOK && sigOK {
					o.Probe("rejected_by_chain_or_clock")
				} else {
					o.Probe("rejected_by_signature")
				}
			}
		}
		o.SimTimeS += sim.SimNow()
	})
	if fail != "" {
		failBubble(o, fail)
	}
	o.Signature = strings.Join(sigParts, ";")
	return o
}

// Specs of the attestation world.
var Specs = []*sim.Spec{{Property: "C06", World: "A", Generate: genA, Execute: execA, Shrink: shrinkA}}

// failBubble classifies the failure of a bubble: a deadlock (every goroutine of the simulated world blocked
// for ever) means an operation of the code under test never completed.
func failBubble(o *sim.Outcome, fail string) {
	if sim.LeftoverOnly(fail) {
		// (callers go on with their oracles: see sim.LeftoverOnly)
		o.Probe("goroutines_left_after_the_last_operation")
		return
	}
	if strings.Contains(fail, "deadlock") {
		o.Fail("any.stalled", "stalled", 0, "the simulated world came to a standstill: an operation never completed (%s)", fail)
		return
	}
	o.Fail("harness.bubble", "bubble", 0, "%s", fail)
}
