package worldg

import (
	"bytes"
	"encoding/json"
	"fmt"
	"regexp"
	"sort"
	"strings"
	"time"

	"github.com/theparanoids/ysshra/gensign"
	"github.com/theparanoids/ysshra/keyid"
	"golang.org/x/crypto/ssh"

	"verifsim/keys"
	"verifsim/refagent"
	"verifsim/sim"
)

const handlerLabel = "paranoids.regular"

// fresh tracks values that must never repeat (challenges, RA key pairs,
// transaction ids) across the runs of one execution and across the two
// executions of a "twice" plan.
type fresh struct {
	challenges map[string]string
	csrKeys    map[string]string
	transIDs   map[string]string
}

func newFresh() *fresh {
	return &fresh{challenges: map[string]string{}, csrKeys: map[string]string{}, transIDs: map[string]string{}}
}

// shippedKeys: every private key an agent of this process was asked to add (whether or not the RA saw the answer), by
// the request that shipped it. A key pair is "fresh for this request" only if no earlier request shipped it.
var shippedKeys = map[string]string{}

func noteShipped(w *world, ri int, exec string, ob *runObs) {
	if len(shippedKeys) > 300000 {
		shippedKeys = map[string]string{}
	}
	for _, ad := range ob.adds {
		if ad.id != nil && ad.id.Cert == nil {
			if _, ok := shippedKeys[string(ad.id.Blob)]; !ok {
				shippedKeys[string(ad.id.Blob)] = fmt.Sprintf("run %d, %s, login %s", ri, exec, w.plan.Runs[min(ri, len(w.plan.Runs)-1)].LogName)
			}
		}
	}
}

var transIDRe = regexp.MustCompile(`^[0-9a-f]{10}$`)

func expectedIdentifier(p *GPlan, algo int) (string, bool) {
	for spelled, id := range p.KeyIDs {
		for a, names := range algoSpellings {
			for _, n := range names {
				if n == spelled && a == algo {
					return id, true
				}
			}
		}
	}
	return "", false
}

var defaultExtensions = map[string]string{
	"permit-pty": "", "permit-X11-forwarding": "", "permit-agent-forwarding": "", "permit-port-forwarding": "", "permit-user-rc": "",
}

func isLabelled(comment string) bool { return strings.Contains(comment, handlerLabel) }

func hasBlob(ids []*refagent.Identity, blob []byte) *refagent.Identity {
	for _, id := range ids {
		if bytes.Equal(id.Blob, blob) {
			return id
		}
	}
	return nil
}

// checkRun evaluates the oracles of C01..C04 on one finished run.
func checkRun(o *sim.Outcome, w *world, ri int, run *GRun, ob *runObs, fr *fresh, exec string) {
	defer noteShipped(w, ri, exec, ob) // (after the checks: what this request shipped is "earlier" for the next one)
	p := w.plan
	step := ri
	kind := errKind(ob.result)
	if ob.paramErr != nil || w.confErr != nil {
		o.Logf("run %d: not started (param=%v conf=%v)", ri, ob.paramErr != nil, w.confErr != nil)
		return
	}
	if ob.escaped != nil {
		o.Fail("C04.no_escape", "escaped_panic", step, "a panic escaped gensign.Run: %v", ob.escaped)
	}

	// ---------- selection bookkeeping ----------
	selected := -1
	anyAuthPanic := false
	for _, a := range ob.auths {
		if a.panicked {
			anyAuthPanic = true
		}
		if a.ok && selected < 0 {
			selected = a.idx
		}
	}
	regularSelected := selected >= 0 && run.Handlers[selected] == "regular"

	// ---------- C01: handler selection ----------
	if len(ob.gens) > 1 {
		o.Fail("C01.selection", "generate_twice", step, "Generate was invoked %d times in one run", len(ob.gens))
	}
	if len(ob.gens) == 1 {
		if selected < 0 {
			o.Fail("C01.selection", "generate_without_auth", step, "Generate invoked on handler %d although no handler authenticated", ob.gens[0])
		} else if ob.gens[0] != selected {
			o.Fail("C01.selection", "wrong_handler", step, "Generate invoked on handler %d, first authenticated handler is %d (handlers %v)", ob.gens[0], selected, run.Handlers)
		}
	}
	// handlers are consulted in order, none after the first success
	for i, a := range ob.auths {
		if a.idx != i {
			o.Fail("C01.selection", "auth_order", step, "Authenticate call %d went to handler %d (handlers %v)", i, a.idx, run.Handlers)
			break
		}
	}
	if selected >= 0 && len(ob.auths) > selected+1 {
		o.Fail("C01.selection", "auth_after_success", step, "handler %d was consulted after handler %d had authenticated", ob.auths[selected+1].idx, selected)
	}
	if selected >= 0 && len(ob.gens) == 0 && !anyAuthPanic && ob.escaped == nil && kind != "panic" {
		o.Fail("C01.selection", "no_generate", step, "handler %d authenticated but Generate was never invoked (result %s)", selected, kind)
	}
	injectedPanic := false
	for _, f := range ob.faults {
		if strings.HasPrefix(f.fault, "panic") {
			injectedPanic = true
		}
	}
	if selected < 0 && !anyAuthPanic && !injectedPanic {
		o.Probe("all_rejected")
		if len(ob.gens) > 0 || len(ob.ca) > 0 || len(ob.addSeqs) > 0 {
			o.Fail("C01.all_reject", "activity_after_reject", step, "no handler authenticated, yet generate=%d ca_calls=%d agent_adds=%d", len(ob.gens), len(ob.ca), len(ob.addSeqs))
		}
		if !gensign.IsErrorOfType(ob.result, gensign.AllAuthFailed) {
			o.Fail("C01.all_reject", "wrong_error", step, "no handler authenticated but the run returned %q", kind)
		}
	}

	// ---------- C01: proof of possession ----------
	reg := w.registered(run.LogName)
	prevAuth := 0
	for _, a := range ob.auths {
		lower := prevAuth
		prevAuth = a.seq
		if !a.regular || !a.ok {
			continue
		}
		if run.Policy != "NONS" {
			o.Fail("C01.precondition", "namespace", step, "regular handler authenticated a request with namespace policy %s", run.Policy)
		}
		if run.HardKey {
			o.Fail("C01.precondition", "hardkey", step, "regular handler authenticated a hardware-key request")
		}
		proof := false
		why := "no sign request was answered before authentication succeeded"
		for _, s := range ob.signs {
			if s.seq > a.seq || s.seq < lower {
				continue
			}
			isReg := false
			for _, rb := range reg {
				if bytes.Equal(rb, s.blob) {
					isReg = true
				}
			}
			switch {
			case !isReg:
				why = "the challenged key is not registered for login name " + run.LogName
			case !s.verifies:
				why = "the agent's reply does not verify over the challenge under the registered key (agent behaviour " + run.Agent + ")"
			case len(s.data) < 16:
				why = fmt.Sprintf("challenge of only %d bytes", len(s.data))
			default:
				proof = true
			}
		}
		if !proof {
			o.Fail("C01.proof", "auth_without_proof:"+run.Agent+":"+dirOf(w, run.LogName), step, "regular handler authenticated login %q (dir state %s, agent %s): %s", run.LogName, dirOf(w, run.LogName), run.Agent, why)
		} else {
			o.Probe("proof_ok")
		}
	}
	for _, s := range ob.signs {
		if s.phase != "auth" {
			continue
		}
		k := string(s.data)
		if prev, dup := fr.challenges[k]; dup {
			o.Fail("C01.fresh", "challenge_repeated", step, "challenge of run %d (%s) repeats the challenge of %s", ri, exec, prev)
		}
		fr.challenges[k] = fmt.Sprintf("run %d (%s)", ri, exec)
		if len(run.ReqUser) >= 4 && bytes.Contains(s.data, []byte(run.ReqUser)) || len(run.ReqHost) >= 4 && bytes.Contains(s.data, []byte(run.ReqHost)) {
			o.Fail("C01.fresh", "challenge_client_chosen", step, "challenge contains a client-supplied value")
		}
	}
	// CA calls with a regular CSR and agent additions need a successful regular authentication before them
	firstRegAuth := -1
	for _, a := range ob.auths {
		if a.regular && a.ok {
			firstRegAuth = a.seq
			break
		}
	}
	for _, c := range ob.ca {
		if !c.stub && (firstRegAuth < 0 || c.seq < firstRegAuth) {
			o.Fail("C01.order", "ca_before_auth", step, "a signing request reached the CA without a preceding successful authentication")
		}
	}
	for _, s := range ob.addSeqs {
		if firstRegAuth < 0 || s < firstRegAuth {
			o.Fail("C01.order", "add_before_auth", step, "an identity was added to the requester's agent without a preceding successful authentication")
		}
	}
	if !regularSelected {
		for _, c := range ob.ca {
			if !c.stub {
				o.Fail("C01.order", "regular_csr_not_selected", step, "the CA received a regular signing request although the regular handler was not the selected one")
			}
		}
		if len(ob.addSeqs) > 0 && selected >= 0 {
			o.Fail("C01.order", "add_not_selected", step, "the agent received add requests although handler %d (%s) was selected", selected, run.Handlers[selected])
		}
	}

	// ---------- C02: content of every regular signing request ----------
	wantAlgo := run.CAAlgo
	if wantAlgo < 0 {
		wantAlgo = 0
	}
	wantID, configured := expectedIdentifier(p, wantAlgo)
	nRegular := 0
	for _, c := range ob.ca {
		if c.stub {
			continue
		}
		nRegular++
		r := c.req
		if len(r.GetPrincipals()) != 1 || r.GetPrincipals()[0] != run.LogName {
			o.Fail("C02.principals", "principals", step, "signing request principals %q, want exactly [%q] (declared user %q)", r.GetPrincipals(), run.LogName, run.ReqUser)
		}
		if r.GetValidity() != p.ValiditySec {
			o.Fail("C02.validity", "validity", step, "signing request validity %d, configured %d", r.GetValidity(), p.ValiditySec)
		}
		if !mapEq(r.GetExtensions(), defaultExtensions) {
			o.Fail("C02.extensions", "extensions", step, "signing request extensions %v, want the five default extensions", r.GetExtensions())
		}
		if !configured {
			o.Fail("C02.slot", "unconfigured_algo", step, "a signing request was sent for CA key algorithm %d which has no configured key identifier", wantAlgo)
		} else if r.GetKeyMeta().GetIdentifier() != wantID {
			o.Fail("C02.slot", "identifier", step, "signing request selects key slot %q, configured for algorithm %d is %q", r.GetKeyMeta().GetIdentifier(), wantAlgo, wantID)
		}
		pub, _, _, _, err := ssh.ParseAuthorizedKey([]byte(r.GetPublicKey()))
		if err != nil {
			o.Fail("C02.key", "unparsable", step, "signing request public key does not parse: %v", err)
		} else {
			blob := pub.Marshal()
			for _, u := range p.Users {
				for _, l := range []string{userKeyLabel(u.Name), altKeyLabel(u.Name)} {
					if bytes.Equal(blob, keys.Pub(u.KeyKind, l).Marshal()) {
						o.Fail("C02.key", "long_term_key", step, "signing request certifies the long-term key of %s", u.Name)
					}
				}
			}
			if prev, shipped := shippedKeys[string(blob)]; shipped {
				o.Fail("C02.key", "key_shipped_before", step, "signing request of run %d (%s) certifies a key pair that was sent to an agent by an earlier request of this process (%s)", ri, exec, prev)
			}
			if prev, dup := fr.csrKeys[string(blob)]; dup {
				o.Fail("C02.key", "key_reused", step, "signing request of run %d (%s) certifies the same key as %s", ri, exec, prev)
			}
			fr.csrKeys[string(blob)] = fmt.Sprintf("run %d (%s)", ri, exec)
			found := false
			for _, ad := range ob.adds {
				if ad.id != nil && ad.id.Cert == nil && bytes.Equal(ad.id.Blob, blob) {
					found = true
				}
			}
			if !found {
				o.Fail("C02.key", "key_not_in_agent", step, "the certified key is not the key pair the RA added to the agent in this run")
			}
		}
		checkKeyID(o, step, r.GetKeyId(), run, ob)
	}
	if regularSelected && !configured && ob.escaped == nil {
		o.Probe("unconfigured_algo")
		if nRegular > 0 {
			// already reported above
		} else if !gensign.IsErrorOfType(ob.result, gensign.HandlerConfErr) && len(ob.faults) == 0 {
			o.Fail("C02.slot", "unconfigured_not_refused", step, "CA key algorithm %d is not configured but the run returned %q instead of a handler configuration error", wantAlgo, kind)
		}
	}
	if ob.param != nil {
		tid := ob.param.TransID
		if !transIDRe.MatchString(tid) {
			o.Fail("C02.transid", "format", step, "transaction id %q is not 10 hex digits", tid)
		}
		if prev, dup := fr.transIDs[tid]; dup {
			o.Fail("C02.transid", "repeated", step, "transaction id %q of run %d (%s) repeats %s", tid, ri, exec, prev)
		}
		fr.transIDs[tid] = fmt.Sprintf("run %d (%s)", ri, exec)
	}

	// ---------- C03: provisioning ----------
	if regularSelected {
		checkProvisioning(o, w, ri, run, ob, kind)
	}

	// ---------- C04: typed outcome ----------
	checkTyped(o, w, ri, run, ob, kind, selected, regularSelected, anyAuthPanic)

	o.Logf("run %d: handlers=%v agent=%s dir=%s policy=%s hard=%v -> %s (auths=%d signs=%d adds=%d ca=%d faults=%d)",
		ri, run.Handlers, run.Agent, dirOf(w, run.LogName), run.Policy, run.HardKey, kind, len(ob.auths), len(ob.signs), len(ob.addSeqs), len(ob.ca), len(ob.faults))
}

func dirOf(w *world, name string) string { return w.dirState(name) }

func mapEq(a, b map[string]string) bool {
	if len(a) != len(b) {
		return false
	}
	for k, v := range a {
		if bv, ok := b[k]; !ok || bv != v {
			return false
		}
	}
	return true
}

func checkKeyID(o *sim.Outcome, step int, kid string, run *GRun, ob *runObs) {
	var m map[string]any
	if err := json.Unmarshal([]byte(kid), &m); err != nil {
		o.Fail("C02.keyid", "not_json", step, "KeyID %q is not a JSON object: %v", kid, err)
		return
	}
	if _, err := keyid.Unmarshal(kid); err != nil {
		o.Fail("C02.keyid", "not_wellformed", step, "KeyID %q is refused by the KeyID decoder: %v", kid, err)
	}
	want := map[string]any{
		"transID": ob.param.TransID, "reqUser": run.ReqUser, "reqIP": run.IP, "reqHost": run.ReqHost,
		"isFirefighter": false, "isHWKey": false, "isHeadless": false, "isNonce": false,
		"usage": float64(0), "touchPolicy": float64(1), "ver": float64(1),
	}
	for k, v := range want {
		if got, ok := m[k]; !ok || got != v {
			o.Fail("C02.keyid", "field:"+k, step, "KeyID field %s = %v, want %v (KeyID %s)", k, m[k], v, kid)
		}
	}
	pr, _ := m["prins"].([]any)
	if len(pr) != 1 || pr[0] != run.LogName {
		o.Fail("C02.keyid", "field:prins", step, "KeyID principals %v, want exactly [%q]", m["prins"], run.LogName)
	}
}

// checkProvisioning: C03 on a run in which the regular handler was selected.
func checkProvisioning(o *sim.Outcome, w *world, ri int, run *GRun, ob *runObs, kind string) {
	p := w.plan
	step := ri
	// every add request of the run carries a finite lifetime not shorter than the validity
	for _, ad := range ob.adds {
		if ad.id == nil {
			continue
		}
		what := "private key"
		if ad.id.Cert != nil {
			what = "certificate"
		}
		if ad.id.LifetimeSecs == 0 {
			o.Fail("C03.lifetime", "no_lifetime:"+what, step, "the RA added a %s to the agent without a lifetime", what)
		} else if uint64(ad.id.LifetimeSecs) < p.ValiditySec {
			o.Fail("C03.lifetime", "short_lifetime:"+what, step, "the RA added a %s with lifetime %d s, shorter than the certificate validity %d s", what, ad.id.LifetimeSecs, p.ValiditySec)
		}
	}
	// ... nor shorter than the validity the RA itself asked the CA for in this run (the certificate it gets)
	var asked uint64
	for _, c := range ob.ca {
		if !c.stub && c.req != nil && c.req.GetValidity() > asked {
			asked = c.req.GetValidity()
		}
	}
	for _, ad := range ob.adds {
		if ad.id != nil && ad.id.LifetimeSecs != 0 && uint64(ad.id.LifetimeSecs) < asked {
			o.Fail("C03.lifetime", "shorter_than_requested", step, "the RA asked the CA for a validity of %d s and added an identity with lifetime %d s", asked, ad.id.LifetimeSecs)
		}
	}
	// identities that do not carry the handler's label are never removed or altered
	now := ob.nowAfter
	for _, b := range ob.before {
		if isLabelled(b.Comment) {
			continue
		}
		if !b.Expiry.IsZero() && !now.Before(b.Expiry) {
			continue // aged out on the simulated clock
		}
		a := hasBlob(ob.after, b.Blob)
		if a == nil {
			o.Fail("C03.foreign", "foreign_removed:"+commentClass(b.Comment), step, "identity with comment %q (no handler label) disappeared during run %d", b.Comment, ri)
		} else if a.Comment != b.Comment {
			o.Fail("C03.foreign", "foreign_altered", step, "identity comment changed from %q to %q", b.Comment, a.Comment)
		}
	}
	defer func() {
		for _, ad := range ob.adds {
			if ad.ok && ad.id != nil && ad.id.Cert != nil {
				if w.raCerts == nil {
					w.raCerts = map[string]bool{}
				}
				w.raCerts[string(ad.id.Blob)] = true
			}
		}
	}()
	// certificates returned by the CA for the regular key
	var returned [][]byte
	for _, c := range ob.ca {
		if !c.stub {
			returned = append(returned, c.returned...)
		}
	}
	oldCerts := func(ids []*refagent.Identity) []*refagent.Identity {
		var out []*refagent.Identity
		for _, id := range ids {
			// what an earlier run of the handler left: recognised by its label or because the RA was seen adding it
			if id.Cert != nil && (isLabelled(id.Comment) || w.raCerts[string(id.Blob)]) {
				out = append(out, id)
			}
		}
		return out
	}
	if ob.result == nil && ob.escaped == nil {
		o.Probe("regular_success")
		// new plain key present
		for _, ad := range ob.adds {
			if ad.id != nil && ad.id.Cert == nil && ad.ok {
				// (a key whose finite lifetime ran out while the run was still waiting for a slow CA is gone by design: the
				// whole simulated duration of the run is an upper bound of the key's age)
				if hasBlob(ob.after, ad.id.Blob) == nil && uint64(ad.id.LifetimeSecs) > 0 &&
					ob.nowAfter.Sub(ob.nowBefore) < time.Duration(ad.id.LifetimeSecs)*time.Second {
					o.Fail("C03.usable", "new_key_missing", step, "the freshly generated private key is no longer in the agent after a successful run")
				}
			}
		}
		for _, blob := range returned {
			id := hasBlob(ob.after, blob)
			if id == nil {
				o.Fail("C03.usable", "cert_missing", step, "a certificate returned by the CA is not held by the agent after a successful run (%d returned)", len(returned))
				continue
			}
			if id.Cert == nil {
				o.Fail("C03.usable", "cert_without_cert", step, "certificate identity has no certificate")
				continue
			}
			data := []byte("verif usability probe")
			sig, err := w.ref.Sign(id.Cert, data)
			if err != nil {
				o.Fail("C03.usable", "cert_cannot_sign", step, "the agent cannot sign with a provisioned certificate: %v", err)
			} else if err := id.Cert.Key.Verify(data, sig); err != nil {
				o.Fail("C03.usable", "cert_wrong_key", step, "signature made with a provisioned certificate does not verify under the certified key: %v", err)
			} else {
				o.Probe("cert_signs")
			}
		}
		// at most one generation: certificates of earlier runs are gone
		for _, old := range oldCerts(ob.before) {
			isNew := false
			for _, blob := range returned {
				if bytes.Equal(blob, old.Blob) {
					isNew = true
				}
			}
			if !isNew && hasBlob(ob.after, old.Blob) != nil {
				o.Fail("C03.generation", "old_generation_kept", step, "a certificate provisioned by an earlier run is still in the agent after a successful run")
			}
		}
		if len(oldCerts(ob.before)) > 0 {
			o.Probe("regeneration")
		}
	} else {
		// failure: if it happened before or during signing, earlier certificates stay
		failedEarly := len(ob.provision) == 0
		if failedEarly {
			for _, old := range oldCerts(ob.before) {
				if !old.Expiry.IsZero() && !now.Before(old.Expiry) {
					continue
				}
				if hasBlob(ob.after, old.Blob) == nil {
					o.Fail("C03.failure_keeps", "old_cert_lost", step, "run %d failed before provisioning (%s) but a previously provisioned certificate disappeared", ri, kind)
				}
			}
			if len(oldCerts(ob.before)) > 0 {
				o.Probe("failure_with_old_certs")
			}
		}
	}
}

func commentClass(c string) string {
	switch {
	case c == "":
		return "empty"
	case strings.EqualFold(c, handlerLabel) || strings.Contains(strings.ToLower(c), handlerLabel):
		return "case_variant"
	case strings.HasPrefix(handlerLabel, c) || strings.HasPrefix(c, "paranoids"):
		return "near_miss"
	case strings.HasPrefix(c, "login key"):
		return "login_key"
	}
	return "other"
}

// checkTyped: C04 on one run (any number of injected faults).
func checkTyped(o *sim.Outcome, w *world, ri int, run *GRun, ob *runObs, kind string, selected int, regularSelected, anyAuthPanic bool) {
	step := ri
	if ob.result != nil {
		if _, ok := gensign.IsError(ob.result); !ok {
			o.Fail("C04.typed", "untyped_error", step, "run returned an untyped error: %v", ob.result)
		}
	}
	panicFault := false
	for _, f := range ob.faults {
		if strings.HasPrefix(f.fault, "panic") {
			panicFault = true
		}
	}
	if panicFault && ob.escaped == nil && !gensign.IsErrorOfType(ob.result, gensign.Panic) {
		o.Fail("C04.kind", "panic_not_reported", step, "a handler or signer panicked but the run returned %q", kind)
	}
	for _, f := range ob.faults {
		if f.site == "stub" && f.fault == "addfail" && ob.escaped == nil && !panicFault && !gensign.IsErrorOfType(ob.result, gensign.AgentOpCertErr) {
			o.Fail("C04.kind", "agent_key_error_lost", step, "agent key %d refused to take its certificates but the run returned %q", f.index+1, kind)
		}
	}
	malformedReply := false
	for _, f := range ob.faults {
		switch f.fault {
		case refagent.FaultGarbage, refagent.FaultWrongType, refagent.FaultEmpty, refagent.FaultOversize, refagent.FaultTruncBody:
			// a reply that is not a refusal, an error or a lost connection: the property does not
			// say which kind it maps to; a panic inside the protocol client reported as panic is accepted
			malformedReply = true
		}
	}
	if !panicFault && !malformedReply && gensign.IsErrorOfType(ob.result, gensign.Panic) {
		// a panic we did not inject: the code under test crashed on its own
		o.Fail("C04.kind", "spontaneous_panic", step, "run returned a panic error without an injected panic: %v", trim(ob.result.Error(), 300))
	}
	// returned certificates and signer calls
	signerFailed := false
	var returned [][]byte
	for _, c := range ob.ca {
		if c.failed {
			signerFailed = true
		}
		returned = append(returned, c.returned...)
	}
	if signerFailed && !panicFault && ob.escaped == nil && !gensign.IsErrorOfType(ob.result, gensign.SignerSignErr) {
		o.Fail("C04.kind", "signer_error_swallowed", step, "the CA failed a signing request but the run returned %q", kind)
	}
	failedSeq := 0
	for _, c := range ob.ca {
		if c.failed && failedSeq == 0 {
			failedSeq = c.seq
		}
	}
	for _, ps := range ob.provSeqs {
		// agent keys whose requests were all signed before may have been provisioned already; nothing after the failure
		if failedSeq != 0 && ps > failedSeq {
			o.Fail("C04.kind", "provision_after_signer_failure", step, "certificates were handed to the agent after the CA had failed a request")
		}
	}
	if ob.result == nil && ob.escaped == nil {
		// success claims: every CSR signed, every returned cert held by the agent
		if selected < 0 {
			o.Fail("C04.success", "success_without_auth", step, "run succeeded although no handler authenticated")
		}
		if regularSelected {
			if len(ob.ca) == 0 {
				o.Fail("C04.success", "success_without_signing", step, "run succeeded although the CA was never asked")
			}
			for _, blob := range returned {
				if hasBlob(ob.after, blob) == nil {
					o.Fail("C04.success", "success_cert_not_delivered", step, "run reported success but a returned certificate is not in the agent")
				}
			}
		}
	}
	// no certificate reaches the agent that the CA did not return in this run
	for _, id := range ob.after {
		if id.Cert == nil || hasBlob(ob.before, id.Blob) != nil {
			continue
		}
		ok := false
		for _, blob := range returned {
			if bytes.Equal(blob, id.Blob) {
				ok = true
			}
		}
		if !ok {
			o.Fail("C04.origin", "unsigned_cert_in_agent", step, "the agent received a certificate that the CA did not return in this run")
		}
	}
	// error kind by the phase in which a fault fired (single-fault runs only)
	if len(ob.faults) == 1 && ob.result != nil && ob.escaped == nil && !panicFault {
		f := ob.faults[0]
		allowed := map[string]bool{}
		add := func(ph string) {
			switch ph {
			case "auth", "start":
				allowed[gensign.AllAuthFailed.String()] = true
			case "generate":
				allowed[gensign.HandlerGenCSRErr.String()] = true
			case "sign":
				allowed[gensign.SignerSignErr.String()] = true
			case "provision":
				allowed[gensign.AgentOpCertErr.String()] = true
			}
		}
		add(f.phase)
		if f.fault == refagent.FaultCloseAfter || f.fault == refagent.FaultCloseBefore || f.fault == refagent.FaultCloseMid || f.fault == refagent.FaultCloseLost || f.fault == refagent.FaultOversize {
			// the connection is gone: the failure may surface at a later agent operation
			for _, ph := range phasesAfter(f.phase) {
				add(ph)
			}
		}
		// configuration refusals and rejected parameters are legitimate on their own
		allowed[gensign.HandlerConfErr.String()] = true
		if len(run.Handlers) > 1 {
			allowed[gensign.AllAuthFailed.String()] = allowed[gensign.AllAuthFailed.String()] || f.phase == "auth"
		}
		if malformedReply {
			allowed[gensign.Panic.String()] = true
		}
		if enumRefKind != "" {
			allowed[enumRefKind] = true
		}
		if !allowed[kind] && f.site != "signer" {
			o.Fail("C04.kind", "kind_mismatch:"+f.phase, step, "fault %s/%s fired in phase %s, run returned %q, allowed %v", f.site, f.fault, f.phase, kind, keysOf(allowed))
		}
	}
}

func phasesAfter(ph string) []string {
	all := []string{"auth", "generate", "sign", "provision"}
	for i, p := range all {
		if p == ph {
			return all[i+1:]
		}
	}
	return all
}

func keysOf(m map[string]bool) []string {
	var out []string
	for k, v := range m {
		if v {
			out = append(out, k)
		}
	}
	sort.Strings(out)
	return out
}

func trim(s string, n int) string {
	if len(s) > n {
		return s[:n]
	}
	return s
}
