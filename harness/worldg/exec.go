package worldg

import (
	"bytes"
	"context"
	"encoding/binary"
	"encoding/json"
	"errors"
	"fmt"
	"io"
	"log"
	"net"
	"os"
	"path/filepath"
	"strings"
	"testing/synctest"
	"time"

	"github.com/rs/zerolog"
	"github.com/theparanoids/crypki/proto"
	"github.com/theparanoids/ysshra/config"
	"github.com/theparanoids/ysshra/csr"
	"github.com/theparanoids/ysshra/gensign"
	"github.com/theparanoids/ysshra/gensign/regular"
	"golang.org/x/crypto/ssh"
	"golang.org/x/crypto/ssh/agent"
	gproto "google.golang.org/protobuf/proto"

	"verifsim/keys"
	"verifsim/refagent"
)

func init() {
	zerolog.SetGlobalLevel(zerolog.Disabled)
	log.SetOutput(io.Discard)
}

// ---- observations ---------------------------------------------------------

type signObs struct {
	seq      int
	blob     []byte
	data     []byte
	reply    []byte // reply body actually sent (nil: none, connection fault)
	verifies bool
	phase    string
}

type addObs struct {
	id *refagent.Identity
	ok bool
}

type caObs struct {
	seq      int
	req      *proto.SSHCertificateSigningRequest
	returned [][]byte
	failed   bool
	stub     bool
}

type authObs struct {
	seq      int
	idx      int
	regular  bool
	ok       bool
	panicked bool
}

type faultObs struct {
	seq   int
	site  string
	fault string
	phase string
	index int
}

type runObs struct {
	param     *csr.ReqParam
	paramErr  error
	handlers  []string
	signs     []signObs
	adds      []addObs // add requests the agent model processed in this run
	addSeqs   []int    // sequence numbers of add-identity request arrivals
	reqKinds  []string
	ca        []caObs
	auths     []authObs
	gens      []int // handler index of every Generate call
	provision [][][]byte
	provSeqs  []int
	faults    []faultObs
	result    error
	escaped   any
	before    []*refagent.Identity
	after     []*refagent.Identity
	nowBefore time.Time
	nowAfter  time.Time
	agentReqs int
	caCalls   int
	stubCalls []string
	// reusedHandler: a handler object of an earlier run served this one
	reusedHandler bool
}

// world is the execution state of one plan.
type world struct {
	plan    *GPlan
	dir     string
	conf    *config.GensignConfig
	confErr error
	ref     *refagent.Agent
	seq     int
	phase   string
	serial  uint64
	// signature replay store: blob -> an earlier (data, reply)
	oldSig map[string][]byte
	runs   []*runObs
	cur    *runObs
	// kept from run 0 when the plan says that one process serves several requests (ReuseHandlers)
	shared *sharedRA
	// raCerts: blobs of the certificates the RA was seen adding to the agent in earlier runs
	raCerts map[string]bool
	// dirNow: key directory states changed between runs (name -> state)
	dirNow map[string]string
	// withoutKeyOf: the forwarded agent of this world does not hold that user's key
	withoutKeyOf string
}

type sharedRA struct {
	a, b     net.Conn
	peer     *refagent.Peer
	done     chan struct{}
	handlers []string
	regular  map[int]gensign.Handler
}

// closeShared ends the kept connection at the end of a plan.
func (w *world) closeShared() {
	if w.shared != nil {
		w.shared.a.Close()
		w.shared.b.Close()
		<-w.shared.done
		w.shared = nil
	}
}

func (w *world) next() int { w.seq++; return w.seq }

func userKeyLabel(name string) string { return "user:" + name }
func altKeyLabel(name string) string  { return "alt:" + name }

func (w *world) user(name string) *GUser {
	for i := range w.plan.Users {
		if w.plan.Users[i].Name == name {
			return &w.plan.Users[i]
		}
	}
	return nil
}

// registered returns the public keys registered in the directory for a name. When both file spellings exist with
// different keys, which of them is "the" registered key is left open (both are accepted) - except after the history
// "the key was registered as <name> only, then another key was registered as <name>.pub" (state alt_pub_added): the
// anchored lookup order puts <name>.pub first, so from then on the key in <name>.pub is the registered one; a lookup
// that keeps answering with what it found earlier is stale.
func (w *world) registered(name string) [][]byte {
	u := w.user(name)
	if u == nil {
		return nil
	}
	own := keys.Pub(u.KeyKind, userKeyLabel(name)).Marshal()
	switch w.dirState(name) {
	case "pub", "pub_commented", "bare", "both_same", "pub_symlink", "pub_dangling_bare", "pub_loop_bare":
		return [][]byte{own}
	case "both_diff":
		return [][]byte{own, keys.Pub(u.KeyKind, altKeyLabel(name)).Marshal()}
	case "rotated", "alt_pub_added":
		return [][]byte{keys.Pub(u.KeyKind, altKeyLabel(name)).Marshal()}
	}
	return nil
}

// dirState is the current state of the key directory for a name (it may change between runs).
func (w *world) dirState(name string) string {
	if st, ok := w.dirNow[name]; ok {
		return st
	}
	if u := w.user(name); u != nil {
		return u.Dir
	}
	return "unknown-user"
}

// changeDir alters the key directory between two runs: the registered key is rotated (replaced by another
// one), deleted, or registered for the first time.
func (w *world) changeDir(name, how string) {
	u := w.user(name)
	if u == nil || strings.ContainsAny(name, "/\x00") {
		return
	}
	kd := filepath.Join(w.dir, "keys")
	pub, bare := filepath.Join(kd, name+".pub"), filepath.Join(kd, name)
	if w.dirNow == nil {
		w.dirNow = map[string]string{}
	}
	if how == "add_pub_alt" {
		// the operator registers another key as <name>.pub and leaves the old entry <name> where it is
		if w.dirState(name) != "bare" {
			return
		}
		os.WriteFile(pub, authorizedLine(u.KeyKind, altKeyLabel(name), "registered later"), 0o644)
		w.dirNow[name] = "alt_pub_added"
		return
	}
	os.RemoveAll(pub)
	os.RemoveAll(bare)
	switch how {
	case "rotate":
		os.WriteFile(pub, authorizedLine(u.KeyKind, altKeyLabel(name), "rotated"), 0o644)
		w.dirNow[name] = "rotated"
	case "delete":
		w.dirNow[name] = "none"
	case "register":
		os.WriteFile(pub, authorizedLine(u.KeyKind, userKeyLabel(name), "registered"), 0o644)
		w.dirNow[name] = "pub"
	}
}

func authorizedLine(kind, label, comment string) []byte {
	line := ssh.MarshalAuthorizedKey(keys.Pub(kind, label))
	if comment != "" {
		line = append(bytes.TrimRight(line, "\n"), []byte(" "+comment+"\n")...)
	}
	return line
}

func (w *world) setupDir() error {
	kd := filepath.Join(w.dir, "keys")
	if err := os.MkdirAll(kd, 0o755); err != nil {
		return err
	}
	for _, u := range w.plan.Users {
		pub := filepath.Join(kd, u.Name+".pub")
		bare := filepath.Join(kd, u.Name)
		own := authorizedLine(u.KeyKind, userKeyLabel(u.Name), "registered")
		var err error
		switch u.Dir {
		case "pub":
			err = os.WriteFile(pub, own, 0o644)
		case "pub_commented":
			// leading comment and blank lines, Windows line ends: still one registered key
			body := "# registered key of " + u.Name + "\r\n\r\n" + strings.TrimRight(string(own), "\n") + "\r\n"
			err = os.WriteFile(pub, []byte(body), 0o644)
		case "bare":
			err = os.WriteFile(bare, own, 0o644)
		case "both_same":
			if err = os.WriteFile(pub, own, 0o644); err == nil {
				err = os.WriteFile(bare, own, 0o644)
			}
		case "both_diff":
			if err = os.WriteFile(pub, own, 0o644); err == nil {
				err = os.WriteFile(bare, authorizedLine(u.KeyKind, altKeyLabel(u.Name), ""), 0o644)
			}
		case "pub_symlink":
			// the registered key lives elsewhere, the entry is a symbolic link to it
			store := filepath.Join(w.dir, "store-"+fmt.Sprint(len(u.Name)))
			if err = os.MkdirAll(store, 0o755); err == nil {
				target := filepath.Join(store, "key.pub")
				if err = os.WriteFile(target, own, 0o644); err == nil {
					err = os.Symlink(target, pub)
				}
			}
		case "pub_dangling":
			// file-system trouble: the entry is a symbolic link whose target is gone
			err = os.Symlink(filepath.Join(w.dir, "gone", "nowhere.pub"), pub)
		case "pub_dangling_bare":
			if err = os.Symlink(filepath.Join(w.dir, "gone", "nowhere.pub"), pub); err == nil {
				err = os.WriteFile(bare, own, 0o644)
			}
		case "pub_loop":
			// ... or a link that points at itself (every access fails with "too many levels of symbolic links")
			err = os.Symlink(pub, pub)
		case "pub_loop_bare":
			if err = os.Symlink(pub, pub); err == nil {
				err = os.WriteFile(bare, own, 0o644)
			}
		case "bare_loop":
			err = os.Symlink(bare, bare)
		case "unparsable":
			err = os.WriteFile(pub, []byte("ssh-ed25519 this-is-not-base64!! nobody\n"), 0o644)
		case "empty":
			err = os.WriteFile(pub, nil, 0o644)
		case "dir":
			err = os.MkdirAll(pub, 0o755)
		}
		if err != nil {
			return err
		}
	}
	// configuration file
	hconf := map[string]any{"pub_key_dir": kd, "cert_validity_sec": w.plan.ValiditySec, "key_identifiers": w.plan.KeyIDs}
	if w.plan.KeyLabel != "" {
		hconf["key_label"] = w.plan.KeyLabel
	}
	full := map[string]any{"keyid_version": 1, "handlers": map[string]any{"paranoids.regular": hconf}, "request_timeout": 60}
	b, _ := json.Marshal(full)
	cp := filepath.Join(w.dir, "config.json")
	if err := os.WriteFile(cp, b, 0o644); err != nil {
		return err
	}
	w.conf, w.confErr = config.NewGensignConfig(cp)
	return nil
}

func (w *world) setupAgent() {
	w.ref = refagent.New()
	for _, name := range w.plan.AgentKeys {
		if name == w.withoutKeyOf {
			continue
		}
		if u := w.user(name); u != nil {
			w.ref.DirectAdd(agent.AddedKey{PrivateKey: keys.AgentPriv(u.KeyKind, userKeyLabel(name)), Comment: "login key of " + name})
		}
	}
	for _, p := range w.plan.PreIDs {
		k := agent.AddedKey{PrivateKey: keys.AgentPriv(keys.KindEd, "pre:"+p.Label), Comment: p.Comment}
		if p.Kind == "ysshcert" {
			k.Certificate = keys.Cert(keys.CertSpec{KeyKind: keys.KindEd, KeyLabel: "pre:" + p.Label, CALabel: "foreign",
				KeyID:       `{"prins":["someone"],"transID":"00aabbccdd","reqUser":"someone","reqIP":"10.1.2.3","reqHost":"elsewhere","isFirefighter":false,"isHWKey":false,"isHeadless":false,"isNonce":false,"usage":0,"touchPolicy":1,"ver":1}`,
				ValidBefore: ssh.CertTimeInfinity, Principals: []string{"someone"}})
		}
		if p.Kind == "cert" {
			k.Certificate = keys.Cert(keys.CertSpec{KeyKind: keys.KindEd, KeyLabel: "pre:" + p.Label, CALabel: "foreign",
				KeyID: "foreign " + p.Label, ValidBefore: ssh.CertTimeInfinity, Principals: []string{"someone"}})
		}
		w.ref.DirectAdd(k)
	}
}

// ---- scripted forwarded agent ---------------------------------------------

func parseSignReq(req []byte) (blob, data []byte, ok bool) {
	if len(req) < 1 || req[0] != 13 {
		return nil, nil, false
	}
	rest := req[1:]
	rd := func() []byte {
		if len(rest) < 4 {
			return nil
		}
		l := int(binary.BigEndian.Uint32(rest))
		if len(rest) < 4+l {
			return nil
		}
		b := rest[4 : 4+l]
		rest = rest[4+l:]
		return b
	}
	blob = rd()
	data = rd()
	return blob, data, blob != nil && data != nil
}

func sshStr(b []byte) []byte {
	out := make([]byte, 4+len(b))
	binary.BigEndian.PutUint32(out, uint32(len(b)))
	copy(out[4:], b)
	return out
}

func signReply(sig *ssh.Signature) []byte {
	return append([]byte{14}, sshStr(ssh.Marshal(sig))...)
}

// verifyReply reports whether a reply body is a sign response whose signature
// verifies over data under the key blob (trusted: ssh.PublicKey.Verify).
func verifyReply(blob, data, reply []byte) bool {
	if len(reply) < 5 || reply[0] != 14 {
		return false
	}
	l := int(binary.BigEndian.Uint32(reply[1:]))
	if len(reply) != 5+l {
		return false
	}
	var sig ssh.Signature
	if err := ssh.Unmarshal(reply[5:], &sig); err != nil {
		return false
	}
	pk, err := ssh.ParsePublicKey(blob)
	if err != nil {
		return false
	}
	return pk.Verify(data, &sig) == nil
}

func (w *world) intercept(run *GRun) func(kind string, req []byte, honest func() []byte) []byte {
	return func(kind string, req []byte, honest func() []byte) []byte {
		if kind != "sign" {
			return nil
		}
		blob, data, ok := parseSignReq(req)
		if !ok {
			return nil
		}
		holder := w.findSigner(blob)
		var reply []byte
		switch run.Agent {
		case "honest":
			reply = honest()
		case "fail":
			reply = []byte{5}
		case "emptysig":
			reply = append([]byte{14}, sshStr(nil)...)
		case "garbagesig":
			reply = append([]byte{14}, sshStr([]byte{0, 0, 0, 3, 'x', 'y', 'z', 0, 0, 0, 2, 1, 2})...)
		case "otherkey":
			other := keys.Signer(keys.KindEd, "intruder")
			if holder != nil && holder.PublicKey().Type() != ssh.KeyAlgoED25519 {
				other = keys.Signer(keys.KindEd, "intruder2")
			}
			sig, _ := other.Sign(zero{}, data)
			if holder != nil {
				sig.Format = holder.PublicKey().Type() // claim the expected format
			}
			reply = signReply(sig)
		case "wrongformat":
			if holder == nil {
				reply = honest()
				break
			}
			sig, _ := holder.Sign(zero{}, data)
			sig.Format = "ssh-dss"
			reply = signReply(sig)
		case "otherdata":
			if holder == nil {
				reply = honest()
				break
			}
			d2 := append([]byte(nil), data...)
			if len(d2) > 0 {
				d2[0] ^= 0x80
			} else {
				d2 = []byte{1}
			}
			sig, _ := holder.Sign(zero{}, d2)
			reply = signReply(sig)
		case "replay":
			if old, ok := w.oldSig[string(blob)]; ok {
				reply = old
			} else if holder != nil {
				sig, _ := holder.Sign(zero{}, make([]byte, 64))
				reply = signReply(sig)
			} else {
				reply = honest()
			}
		default:
			reply = honest()
		}
		return reply
	}
}

func (w *world) findSigner(blob []byte) ssh.Signer {
	for _, id := range w.ref.Snapshot() {
		if bytes.Equal(id.Blob, blob) {
			return id.Signer
		}
	}
	return nil
}

type zero struct{}

func (zero) Read(p []byte) (int, error) {
	for i := range p {
		p[i] = 0
	}
	return len(p), nil
}

// ---- recording decorators and stubs ---------------------------------------

type recHandler struct {
	inner   gensign.Handler
	idx     int
	regular bool
	w       *world
}

func (h *recHandler) Name() string { return h.inner.Name() }

func (h *recHandler) Authenticate(p *csr.ReqParam) (err error) {
	h.w.phase = "auth"
	ob := authObs{idx: h.idx, regular: h.regular}
	defer func() {
		ob.seq = h.w.next()
		if r := recover(); r != nil {
			ob.panicked = true
			h.w.cur.auths = append(h.w.cur.auths, ob)
			panic(r)
		}
		ob.ok = err == nil
		h.w.cur.auths = append(h.w.cur.auths, ob)
	}()
	return h.inner.Authenticate(p)
}

func (h *recHandler) Generate(p *csr.ReqParam) ([]csr.AgentKey, error) {
	h.w.phase = "generate"
	h.w.cur.gens = append(h.w.cur.gens, h.idx)
	ks, err := h.inner.Generate(p)
	h.w.phase = "sign"
	out := make([]csr.AgentKey, len(ks))
	for i, k := range ks {
		out[i] = &recKey{inner: k, w: h.w}
	}
	return out, err
}

type recKey struct {
	inner csr.AgentKey
	w     *world
}

func (k *recKey) CSRs() []*proto.SSHCertificateSigningRequest { return k.inner.CSRs() }

func (k *recKey) AddCertsToAgent(certs []ssh.PublicKey, comments []string) error {
	k.w.phase = "provision"
	var blobs [][]byte
	for _, c := range certs {
		blobs = append(blobs, c.Marshal())
	}
	k.w.cur.provision = append(k.w.cur.provision, blobs)
	k.w.cur.provSeqs = append(k.w.cur.provSeqs, k.w.next())
	err := k.inner.AddCertsToAgent(certs, comments)
	k.w.phase = "sign"
	return err
}

type stubHandler struct {
	idx     int
	auth    string
	ncsrs   int
	nkeys   int
	addFail int
	panicIn string
	w       *world
}

func (s *stubHandler) maybePanic(m string) {
	s.w.cur.stubCalls = append(s.w.cur.stubCalls, fmt.Sprintf("%d.%s", s.idx, m))
	if s.panicIn == m {
		s.w.cur.faults = append(s.w.cur.faults, faultObs{seq: s.w.next(), site: "stub", fault: "panic:" + m, phase: s.w.phase})
		panic(panicValue("scripted panic in stub handler "+m, s.idx))
	}
}

// panicValue: what a scripted panic carries. Real panics come with values of many dynamic types (strings, errors,
// runtime errors, values of a package's own types); which one is a function of the site, so that the placements of one
// scenario - executed one after the other in one process - meet different types in a row.
type panicPayload struct {
	Site string
	N    int
}

func panicValue(site string, n int) any {
	h := n
	for _, c := range site {
		h = h*31 + int(c)
	}
	if h < 0 {
		h = -h
	}
	switch h % 5 {
	case 0:
		return site
	case 1:
		return fmt.Errorf("%s (error value)", site)
	case 2:
		return panicPayload{Site: site, N: n}
	case 3:
		return &panicPayload{Site: site, N: n}
	}
	// a genuine runtime error
	var m map[string]int
	defer func() {}()
	return func() (v any) {
		defer func() { v = recover() }()
		m[site] = n
		return nil
	}()
}

func (s *stubHandler) Name() string {
	s.maybePanic("Name")
	return fmt.Sprintf("stub%d", s.idx)
}

func (s *stubHandler) Authenticate(*csr.ReqParam) error {
	switch s.auth {
	case "ok":
		return nil
	case "panic":
		s.w.cur.faults = append(s.w.cur.faults, faultObs{seq: s.w.next(), site: "stub", fault: "panic:Authenticate", phase: "auth"})
		panic(panicValue("scripted panic in stub Authenticate", s.idx))
	case "fail_disabled":
		// every kind of error value is a refusal
		return gensign.NewError(gensign.HandlerDisabled, fmt.Sprintf("stub%d", s.idx), errors.New("stub: handler disabled"))
	case "fail_typed":
		kinds := []gensign.ErrorType{gensign.Unknown, gensign.HandlerAuthN, gensign.InvalidParams, gensign.HandlerConfErr, gensign.AllAuthFailed, gensign.Panic, gensign.HandlerGenCSRErr}
		return gensign.NewError(kinds[s.idx%len(kinds)], fmt.Sprintf("stub%d", s.idx), errors.New("stub: refused"))
	}
	return errors.New("stub: authentication refused")
}

func (s *stubHandler) Generate(*csr.ReqParam) ([]csr.AgentKey, error) {
	s.maybePanic("Generate")
	var out []csr.AgentKey
	for kk := 0; kk < max(1, s.nkeys); kk++ {
		k := &stubKey{h: s, idx: kk}
		for i := 0; i < s.ncsrs; i++ {
			k.csrs = append(k.csrs, &proto.SSHCertificateSigningRequest{
				KeyMeta: &proto.KeyMeta{Identifier: "stub-slot"}, KeyId: fmt.Sprintf("stub-csr-%d-%d-%d", s.idx, kk, i),
				Principals: []string{"stub"}, Validity: 60,
				PublicKey: string(ssh.MarshalAuthorizedKey(keys.Pub(keys.KindEd, "stubkey"))),
			})
		}
		out = append(out, k)
	}
	return out, nil
}

type stubKey struct {
	idx   int
	h     *stubHandler
	csrs  []*proto.SSHCertificateSigningRequest
	added [][]byte
}

func (k *stubKey) CSRs() []*proto.SSHCertificateSigningRequest {
	k.h.maybePanic("CSRs")
	return k.csrs
}

func (k *stubKey) AddCertsToAgent(certs []ssh.PublicKey, _ []string) error {
	k.h.maybePanic("AddCertsToAgent")
	if k.h.addFail > 0 && k.idx+1 == k.h.addFail {
		k.h.w.cur.faults = append(k.h.w.cur.faults, faultObs{seq: k.h.w.next(), site: "stub", fault: "addfail", phase: "provision", index: k.idx})
		return errors.New("scripted refusal of the agent while adding certificates")
	}
	for _, c := range certs {
		k.added = append(k.added, c.Marshal())
	}
	return nil
}

// scriptedCA implements csr.Signer.
type scriptedCA struct {
	// ob: the observations of the run this CA object was made for. A call that outlives its run - the RA gave up on a
	// slow CA, the call returns later - still belongs to that run, not to whichever run is current by then.
	ob    *runObs
	w     *world
	run   *GRun
	calls int
	// extra single fault of the C04 enumeration
	failCall  int
	failPanic bool
}

func (c *scriptedCA) Sign(ctx context.Context, req *proto.SSHCertificateSigningRequest) ([]ssh.PublicKey, []string, error) {
	idx := c.calls
	c.calls++
	ob := caObs{seq: c.w.next(), req: gproto.Clone(req).(*proto.SSHCertificateSigningRequest), stub: strings.HasPrefix(req.GetKeyId(), "stub-csr")}
	defer func() { c.ob.ca = append(c.ob.ca, ob) }()
	fail, pan := false, false
	if c.run.CA.DelaySec > 0 {
		time.Sleep(time.Duration(c.run.CA.DelaySec) * time.Second) // a slow CA (simulated clock)
	}
	if c.run.CA.Mode != "ok" && c.run.CA.FailAt == idx {
		fail, pan = true, c.run.CA.Mode == "panic"
	}
	if c.failCall == idx {
		fail, pan = true, c.failPanic
	}
	if fail {
		ob.failed = true
		kind := "error"
		if pan {
			kind = "panic"
		}
		c.ob.faults = append(c.ob.faults, faultObs{seq: c.w.next(), site: "signer", fault: kind, phase: "sign", index: idx})
		if pan {
			panic(panicValue("scripted panic in signer", c.calls))
		}
		return nil, nil, errors.New("scripted CA failure")
	}
	pub, _, _, _, err := ssh.ParseAuthorizedKey([]byte(req.GetPublicKey()))
	if err != nil {
		ob.failed = true
		return nil, nil, fmt.Errorf("CA cannot parse public key: %v", err)
	}
	caNow := time.Now().Unix() + c.run.CA.SkewSec // the CA has its own clock
	var certs []ssh.PublicKey
	for i := 0; i < c.run.CA.NCerts; i++ {
		c.w.serial++
		now := uint64(max(caNow+int64(i)*c.run.CA.StaggerSec, 0))
		crt := &ssh.Certificate{Key: pub, Serial: c.w.serial, CertType: ssh.UserCert, KeyId: req.GetKeyId(),
			ValidPrincipals: req.GetPrincipals(), ValidAfter: now, ValidBefore: now + req.GetValidity()}
		crt.Permissions.Extensions = req.GetExtensions()
		if err := crt.SignCert(zero{}, keys.Signer(keys.KindEd, "ca:g")); err != nil {
			return nil, nil, err
		}
		certs = append(certs, crt)
		ob.returned = append(ob.returned, crt.Marshal())
	}
	return certs, append([]string(nil), c.run.CA.Comments...), nil
}

// ---- one run --------------------------------------------------------------

func buildCommand(run *GRun) string {
	if run.Legacy {
		cmd := fmt.Sprintf("IFVer=6 SSHClientVersion=%s req=%s@%s HardKey=%v", sshVer(run), run.ReqUser, run.ReqHost, run.HardKey)
		if run.Touch2SSH {
			cmd += " Touch2SSH=true"
		}
		if run.Firefighter {
			cmd += " IsFirefighter=true"
		}
		if run.SudoHosts != "" {
			cmd += fmt.Sprintf(" TouchlessSudoHosts=%s TouchlessSudoTime=%d", run.SudoHosts, run.SudoTime)
		}
		return cmd
	}
	m := map[string]any{"ifVer": 7, "username": run.ReqUser, "hostname": run.ReqHost, "sshClientVersion": sshVer(run), "hardKey": run.HardKey}
	if run.CAAlgo >= 0 {
		m["caPubKeyAlgo"] = run.CAAlgo
	}
	if run.Touch2SSH {
		m["touch2SSH"] = true
	}
	if run.Firefighter || run.SudoHosts != "" {
		m["touchlessSudo"] = map[string]any{"isFirefighter": run.Firefighter, "hosts": run.SudoHosts, "time": run.SudoTime}
	}
	if run.SigAlgo != 0 {
		m["signatureAlgo"] = run.SigAlgo
	}
	if run.Exts {
		m["exts"] = map[string]any{"touchPolicy": 3, "isHWKey": true, "prins": []string{"root"}, "validity": 999999999, "keyid_version": 2}
	}
	b, _ := json.Marshal(m)
	return string(b)
}

func sshVer(run *GRun) string {
	if run.SSHVer != "" {
		return run.SSHVer
	}
	return "8.1"
}

// extraFault is the single additional fault of a C04 placement.
type extraFault struct {
	agentAt    int // agent request index (-1: none)
	agentFault string
	signerAt   int // signer call index (-1: none)
	signerPan  bool
	stubPanic  string
	// overlap: the simulated agent holds its answer to request gateAt until gate is closed; reached is called when the
	// request has arrived (another request of the same process is served meanwhile)
	gateAt  int
	gate    chan struct{}
	reached func()
}

func noExtra() extraFault { return extraFault{agentAt: -1, signerAt: -1, gateAt: -1} }

func (w *world) doRun(run *GRun, extra extraFault) *runObs {
	ob := &runObs{handlers: run.Handlers}
	w.cur = ob
	w.runs = append(w.runs, ob)
	if run.AdvanceS > 0 {
		time.Sleep(time.Duration(run.AdvanceS) * time.Second)
	}
	if run.DirChange != "" {
		w.changeDir(run.LogName, run.DirChange)
	}
	ob.before = w.ref.Snapshot()
	ob.nowBefore = time.Now()
	env := map[string]string{
		"SSH_ORIGINAL_COMMAND": buildCommand(run),
		"LOGNAME":              run.LogName,
		"SSH_CONNECTION":       run.IP + " 36673 192.168.223.229 22",
	}
	ob.param, ob.paramErr = csr.NewReqParam(func(k string) string { return env[k] },
		func() []string { return []string{"/usr/bin/gensign", run.Policy, "Regular"} })
	if ob.paramErr != nil || w.confErr != nil {
		ob.after = ob.before
		ob.nowAfter = ob.nowBefore
		return ob
	}
	clean := len(run.Faults) == 0 && extra.agentAt < 0
	reuse := w.plan.ReuseHandlers && clean && w.shared != nil && strings.Join(w.shared.handlers, ",") == strings.Join(run.Handlers, ",")
	if w.shared != nil && !reuse {
		w.closeShared() // this run gets a process (connection, handlers) of its own
	}
	var a, b net.Conn
	var peer *refagent.Peer
	if reuse {
		a, b, peer = w.shared.a, w.shared.b, w.shared.peer
	} else {
		a, b = net.Pipe()
		peer = &refagent.Peer{Agent: w.ref, Faults: append([]refagent.PeerFault(nil), run.Faults...)}
	}
	if extra.agentAt >= 0 {
		peer.Faults = append([]refagent.PeerFault{{At: extra.agentAt, Fault: extra.agentFault}}, peer.Faults...)
	}
	icpt := w.intercept(run)
	var lastSign *signObs
	peer.OnRequest = func(idx int, kind string, req []byte) {
		if extra.gate != nil && idx == extra.gateAt {
			extra.reached()
			<-extra.gate
		}
		ob.reqKinds = append(ob.reqKinds, kind)
		ob.agentReqs++
		if kind == "add" {
			ob.addSeqs = append(ob.addSeqs, w.next())
		}
		if kind == "sign" {
			blob, data, _ := parseSignReq(req)
			ob.signs = append(ob.signs, signObs{seq: w.next(), blob: blob, data: data, phase: w.phase})
			lastSign = &ob.signs[len(ob.signs)-1]
		}
	}
	peer.OnFault = func(kind, fault string, idx int) {
		ob.faults = append(ob.faults, faultObs{seq: w.next(), site: "agent:" + kind, fault: fault, phase: w.phase, index: idx})
	}
	evStart := w.ref.EventCount()
	peer.Intercept = icpt
	peer.OnReply = func(kind string, req, reply []byte) {
		if kind == "sign" && lastSign != nil {
			lastSign.reply = reply
			lastSign.verifies = verifyReply(lastSign.blob, lastSign.data, reply)
			if lastSign.verifies && run.Agent == "honest" {
				w.oldSig[string(lastSign.blob)] = reply
			}
			lastSign = nil
		}
	}
	var done chan struct{}
	if reuse {
		done = w.shared.done
	} else {
		done = make(chan struct{})
		go func() { peer.Serve(b); close(done) }()
	}
	keep := w.plan.ReuseHandlers && clean && !reuse && w.shared == nil
	if keep {
		w.shared = &sharedRA{a: a, b: b, peer: peer, done: done, handlers: run.Handlers, regular: map[int]gensign.Handler{}}
	}

	var handlers []gensign.Handler
	selectedStubPanic := run.StubPanic
	stubAddFail := run.StubAddFail
	if strings.HasPrefix(extra.stubPanic, "addfail:") {
		fmt.Sscanf(extra.stubPanic, "addfail:%d", &stubAddFail)
	} else if extra.stubPanic != "" {
		selectedStubPanic = extra.stubPanic
	}
	for i, h := range run.Handlers {
		if h == "regular" {
			var rh gensign.Handler
			if reuse && w.shared.regular[i] != nil {
				rh = w.shared.regular[i] // the handler object that served the earlier request
				ob.reusedHandler = true
			} else {
				nh, err := regular.NewHandler(w.conf, a)
				if err != nil {
					continue
				}
				rh = nh
				if w.shared != nil && (keep || reuse) {
					w.shared.regular[i] = rh
				}
			}
			handlers = append(handlers, &recHandler{inner: rh, idx: i, regular: true, w: w})
		} else {
			st := &stubHandler{idx: i, auth: strings.TrimPrefix(h, "stub:"), ncsrs: run.StubCSRs, nkeys: run.StubKeys, addFail: stubAddFail, panicIn: selectedStubPanic, w: w}
			handlers = append(handlers, &recHandler{inner: st, idx: i, w: w})
		}
	}
	ca := &scriptedCA{ob: ob, w: w, run: run, failCall: extra.signerAt, failPanic: extra.signerPan}
	w.phase = "start"
	ctx, cancel := context.WithTimeout(context.Background(), 60*time.Second)
	func() {
		defer func() {
			if r := recover(); r != nil {
				ob.escaped = r
			}
		}()
		ob.result = gensign.Run(ctx, ob.param, handlers, ca)
	}()
	cancel()
	w.phase = "done"
	if w.shared == nil || w.shared.a != a {
		a.Close()
		b.Close()
		<-done
	} else {
		// the connection stays open for the next request: let the simulated agent finish what it is doing (it
		// records the reply it has just delivered after the run may already have gone on)
		synctest.Wait()
	}
	ob.caCalls = ca.calls
	for _, ev := range w.ref.EventsSince(evStart) {
		if ev.Kind == "add" {
			ob.adds = append(ob.adds, addObs{id: ev.Added, ok: ev.OK})
		}
	}
	ob.after = w.ref.Snapshot()
	ob.nowAfter = time.Now()
	return ob
}

func errKind(err error) string {
	if err == nil {
		return "ok"
	}
	if e, ok := gensign.IsError(err); ok {
		return e.Type().String()
	}
	return "untyped"
}
