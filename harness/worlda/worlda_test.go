package worlda

import (
	"testing"

	"verifsim/sim"
)

func TestWorker(t *testing.T) { sim.RunWorker(t, Specs) }
