package worlds

import (
	"fmt"
	"net"
	"os"
	"path/filepath"
	"runtime/debug"
	"testing"

	"github.com/theparanoids/ysshra/agent/shimagent"

	"verifsim/refagent"
	"verifsim/sim"
)

func tmpRoot() string {
	if d := os.Getenv("VERIF_TMP"); d != "" {
		return d
	}
	return os.TempDir()
}

// execConstruct exercises the real shimagent.New (dial of a unix socket) with
// the underlying agent failing while the shim is being constructed. The socket
// is a real kernel object and is not scheduled; the exchange is a strict
// request/response sequence, so the outcome is a function of the plan.
func execConstruct(t *testing.T, p *SPlan) *sim.Outcome {
	o := &sim.Outcome{}
	dir, err := os.MkdirTemp(tmpRoot(), "s-")
	if err != nil {
		o.Fail("harness.tmp", "mkdtemp", 0, "%v", err)
		return o
	}
	defer os.RemoveAll(dir)
	sock := filepath.Join(dir, "a.sock")
	done := make(chan struct{})
	var ln net.Listener
	accepted := make(chan net.Conn, 1)
	if p.Construct != "refuse_dial" {
		ln, err = net.Listen("unix", sock)
		if err != nil {
			o.Fail("harness.listen", "listen", 0, "%v", err)
			return o
		}
		ref := refagent.New()
		cat := newCatalog(p.Keys, p.Certs)
		for _, r := range p.Init {
			ref.DirectAdd(cat.added(r, 0))
		}
		go func() {
			defer close(done)
			c, err := ln.Accept()
			if err != nil {
				return
			}
			accepted <- c
			peer := &refagent.Peer{Agent: ref, Faults: []refagent.PeerFault{{At: 0, Fault: p.Construct}}}
			peer.OnFault = func(kind, fault string, idx int) { o.Fault("construct/" + fault) }
			peer.Serve(c)
			c.Close()
		}()
	} else {
		close(done)
		o.Fault("construct/refuse_dial")
	}
	var shim shimagent.ShimAgent
	var cerr error
	var panicked any
	var stack []byte
	func() {
		defer func() {
			if r := recover(); r != nil {
				panicked = r
				stack = debug.Stack()
			}
		}()
		shim, cerr = shimagent.New(shimagent.Option{Address: sock, NoUpstream: p.NoUp})
	}()
	mode := "up"
	if p.NoUp {
		mode = "noup"
	}
	o.Logf("construct mode=%s fault=%s -> err=%v panic=%v", mode, p.Construct, cerr != nil, panicked != nil)
	if panicked != nil {
		o.Fail("C10.no_crash", panicSite(stack), 0, "shimagent.New panicked while the underlying agent failed during construction (mode %s, fault %s): %v", mode, p.Construct, panicked)
	} else {
		if cerr != nil {
			o.Probe("construct_failure_reported")
		}
		// no-upstream mode lists the underlying agent while constructing: its failure has to surface
		if cerr == nil && p.NoUp && p.Construct != "refuse_dial" && p.Construct != refagent.FaultCloseAfter {
			o.Fail("C10.construct", "construct_error_swallowed", 0, "shimagent.New succeeded in no-upstream mode although the underlying agent answered the construction-time list request with fault %q", p.Construct)
		}
		if cerr == nil && p.Construct == "refuse_dial" {
			o.Fail("C10.construct", "dial_error_swallowed", 0, "shimagent.New succeeded although the underlying agent's socket does not exist")
		}
		if shim != nil {
			// a constructed shim must stay usable as an error-returning object
			func() {
				defer func() {
					if r := recover(); r != nil {
						o.Fail("C10.no_crash", panicSite(debug.Stack()), 1, "List on a shim constructed under a fault panicked: %v", r)
					}
				}()
				shim.List()
				shim.Close()
			}()
		}
	}
	if ln != nil {
		ln.Close()
	}
	select {
	case c := <-accepted:
		c.Close()
	default:
	}
	<-done
	o.Signature = fmt.Sprintf("construct:%s:%s:err=%v:panic=%v", mode, p.Construct, cerr != nil, panicked != nil)
	return o
}
