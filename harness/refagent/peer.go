package refagent

import (
	"bytes"
	"encoding/binary"
	"io"
	"strconv"
	"strings"
	"time"

	"golang.org/x/crypto/ssh/agent"
)

// Fault kinds a peer can inject instead of (or around) an honest reply.
const (
	FaultFail        = "fail"         // SSH_AGENT_FAILURE
	FaultEmpty       = "empty"        // zero-length reply frame
	FaultGarbage     = "garbage"      // well-delimited frame with a meaningless body
	FaultWrongType   = "wrongtype"    // well-formed reply of another type
	FaultOversize    = "oversize"     // length prefix above 16 MiB
	FaultCloseBefore = "close_before" // connection closed instead of a reply
	FaultCloseMid    = "close_mid"    // connection closed in the middle of the reply
	FaultCloseAfter  = "close_after"  // honest reply, then the connection is closed
	FaultTruncBody   = "trunc"        // well-delimited but truncated honest body
	// FaultCloseLost: the request is carried out, then the connection is closed before a single byte of the reply
	// is written (opt-in, not part of AllFaults)
	FaultCloseLost = "close_lost"
	// FaultFailSame: SSH_AGENT_FAILURE now and for every later request with the very same bytes - an agent that
	// refuses this key, however often it is asked (not part of AllFaults: the worlds opt in)
	FaultFailSame = "fail_same"
	// FaultFailKind: SSH_AGENT_FAILURE now and for every later request of the same kind - an agent that does not
	// implement this operation (token-backed agents refuse removals), opt-in like FaultFailSame
	FaultFailKind = "fail_kind"
)

// SlowPrefix marks what is not a fault at all: "slow:<seconds>" makes the peer take that long (on the clock
// of the run; simulated inside a bubble) before it answers honestly.
const SlowPrefix = "slow:"

// ActPrefix marks another non-fault: "act:<what>" calls OnAct(<what>) when the request has been received and before
// it is answered - honestly, on the state after the act. Somebody else is a client of the same agent.
const ActPrefix = "act:"

// ActAfterPrefix: as ActPrefix, but the act happens right after the (honest) reply to the request was written: between
// this request of a call and its next one.
const ActAfterPrefix = "act_after:"

// AllFaults lists the fault kinds.
var AllFaults = []string{FaultFail, FaultEmpty, FaultGarbage, FaultWrongType, FaultOversize,
	FaultCloseBefore, FaultCloseMid, FaultCloseAfter, FaultTruncBody}

// PeerFault arms one fault: at request index At (>= 0), or at the Nth (0-based)
// request of kind OnKind when At < 0.
type PeerFault struct {
	At     int    `json:"at"`
	OnKind string `json:"on_kind,omitempty"`
	Nth    int    `json:"nth,omitempty"`
	Fault  string `json:"fault"`
}

// Peer serves one connection of an agent model, with faults.
type Peer struct {
	Agent  agent.Agent
	Faults []PeerFault
	// Intercept, when set, may answer a request itself (return non-nil reply
	// body) — used for scripted signing behaviours of an untrusted agent.
	Intercept func(kind string, req []byte, honest func() []byte) []byte
	// OnFault is called when a fault fires.
	OnFault func(kind, fault string, reqIndex int)
	// OnRequest is called for every complete request frame.
	OnRequest func(reqIndex int, kind string, req []byte)
	// OnReply is called for every reply body that was delivered completely.
	OnReply func(kind string, req, reply []byte)
	// OnSlow is called before a slow (but honest) reply is delayed.
	OnSlow func(kind string, secs int64)
	// OnAct performs an "act:" entry.
	OnAct func(what, kind string, reqIndex int)

	reqIndex int
	perKind  map[string]int
	fired    map[int]bool
	refused  [][]byte        // requests that are refused whenever they come again (FaultFailSame)
	noKind   map[string]bool // request kinds that are refused from now on (FaultFailKind)
}

// KindOf maps an agent opcode to a request kind.
func KindOf(op byte) string {
	switch op {
	case 11:
		return "list"
	case 13:
		return "sign"
	case 17, 25:
		return "add"
	case 18:
		return "remove"
	case 19:
		return "removeall"
	case 22:
		return "lock"
	case 23:
		return "unlock"
	case 27:
		return "ext"
	case 1, 9:
		return "v1"
	}
	return "raw"
}

type oneShot struct {
	in  *bytes.Reader
	out *bytes.Buffer
}

func (o *oneShot) Read(p []byte) (int, error)  { return o.in.Read(p) }
func (o *oneShot) Write(p []byte) (int, error) { return o.out.Write(p) }

// EchoReply is the answer to a request the protocol server does not know: a marker octet and the request, cut so that
// the answer is itself a frame the protocol can carry (16 MiB).
func EchoReply(req []byte) []byte {
	const maxFrame = 16 << 20
	if len(req) >= maxFrame {
		req = req[:maxFrame-1]
	}
	return append([]byte{0xEE}, req...)
}

// Process returns the honest reply body for one request body.
func Process(a agent.Agent, req []byte) []byte {
	if len(req) == 0 {
		return []byte{5}
	}
	if KindOf(req[0]) == "raw" {
		// Unknown to the protocol server: echo, so that relays can be checked.
		return EchoReply(req)
	}
	frame := make([]byte, 4+len(req))
	binary.BigEndian.PutUint32(frame, uint32(len(req)))
	copy(frame[4:], req)
	o := &oneShot{in: bytes.NewReader(frame), out: &bytes.Buffer{}}
	agent.ServeAgent(a, o)
	b := o.out.Bytes()
	if len(b) < 4 {
		return []byte{5}
	}
	return b[4:]
}

func frame(body []byte) []byte {
	f := make([]byte, 4+len(body))
	binary.BigEndian.PutUint32(f, uint32(len(body)))
	copy(f[4:], body)
	return f
}

func (p *Peer) match(kind string) (int, string) {
	for i, f := range p.Faults {
		if p.fired[i] {
			continue
		}
		if f.At >= 0 {
			if f.At == p.reqIndex {
				return i, f.Fault
			}
			continue
		}
		if f.OnKind == kind && f.Nth == p.perKind[kind] {
			return i, f.Fault
		}
	}
	return -1, ""
}

// Serve reads request frames from c and answers them until EOF or a closing
// fault. It returns the number of requests seen.
func (p *Peer) Serve(c io.ReadWriteCloser) int {
	p.perKind = map[string]int{}
	p.fired = map[int]bool{}
	var hdr [4]byte
	for {
		if _, err := io.ReadFull(c, hdr[:]); err != nil {
			return p.reqIndex
		}
		l := binary.BigEndian.Uint32(hdr[:])
		if l > 32<<20 {
			c.Close()
			return p.reqIndex
		}
		req := make([]byte, l)
		if _, err := io.ReadFull(c, req); err != nil {
			return p.reqIndex
		}
		kind := "raw"
		if len(req) > 0 {
			kind = KindOf(req[0])
		}
		if p.OnRequest != nil {
			p.OnRequest(p.reqIndex, kind, req)
		}
		fi, fault := p.match(kind)
		idx := p.reqIndex
		p.reqIndex++
		p.perKind[kind]++
		again := false
		for _, r := range p.refused {
			if bytes.Equal(r, req) {
				again = true
			}
		}
		if again {
			if p.OnFault != nil {
				p.OnFault(kind, FaultFailSame, idx)
			}
			c.Write(frame([]byte{5}))
			continue
		}
		if p.noKind[kind] {
			if p.OnFault != nil {
				p.OnFault(kind, FaultFailKind, idx)
			}
			c.Write(frame([]byte{5}))
			continue
		}
		honest := func() []byte {
			if p.Intercept != nil {
				if b := p.Intercept(kind, req, func() []byte { return Process(p.Agent, req) }); b != nil {
					return b
				}
			}
			return Process(p.Agent, req)
		}
		if fi >= 0 && strings.HasPrefix(fault, SlowPrefix) {
			p.fired[fi] = true
			secs, _ := strconv.ParseInt(fault[len(SlowPrefix):], 10, 64)
			if p.OnSlow != nil {
				p.OnSlow(kind, secs)
			}
			time.Sleep(time.Duration(secs) * time.Second)
			fi = -1
		}
		actAfter := ""
		if fi >= 0 && strings.HasPrefix(fault, ActAfterPrefix) {
			p.fired[fi] = true
			actAfter = fault[len(ActAfterPrefix):]
			fi = -1
		}
		if fi >= 0 && strings.HasPrefix(fault, ActPrefix) {
			p.fired[fi] = true
			if p.OnAct != nil {
				p.OnAct(fault[len(ActPrefix):], kind, idx)
			}
			fi = -1
		}
		if fi >= 0 {
			p.fired[fi] = true
			if p.OnFault != nil {
				p.OnFault(kind, fault, idx)
			}
			switch fault {
			case FaultFail:
				c.Write(frame([]byte{5}))
				continue
			case FaultFailSame:
				p.refused = append(p.refused, append([]byte(nil), req...))
				c.Write(frame([]byte{5}))
				continue
			case FaultFailKind:
				if p.noKind == nil {
					p.noKind = map[string]bool{}
				}
				p.noKind[kind] = true
				c.Write(frame([]byte{5}))
				continue
			case FaultEmpty:
				c.Write(frame(nil))
				continue
			case FaultGarbage:
				c.Write(frame([]byte{0x0c, 0xde, 0xad, 0xbe, 0xef, 0x01, 0x02}))
				continue
			case FaultWrongType:
				if kind == "list" {
					c.Write(frame([]byte{6}))
				} else {
					c.Write(frame([]byte{12, 0, 0, 0, 0}))
				}
				continue
			case FaultOversize:
				c.Write([]byte{0x7f, 0xff, 0xff, 0xff}) // the reader gives up after the prefix
				c.Close()
				return p.reqIndex
			case FaultCloseBefore:
				c.Close()
				return p.reqIndex
			case FaultCloseLost:
				honest()
				c.Close()
				return p.reqIndex
			case FaultCloseMid:
				f := frame(honest())
				c.Write(f[:len(f)/2+1])
				c.Close()
				return p.reqIndex
			case FaultCloseAfter:
				b := honest()
				c.Write(frame(b))
				if p.OnReply != nil {
					p.OnReply(kind, req, b)
				}
				c.Close()
				return p.reqIndex
			case FaultTruncBody:
				b := honest()
				c.Write(frame(b[:len(b)/2]))
				continue
			}
		}
		body := honest()
		if _, err := c.Write(frame(body)); err != nil {
			return p.reqIndex
		}
		if p.OnReply != nil {
			p.OnReply(kind, req, body)
		}
		if actAfter != "" && p.OnAct != nil {
			p.OnAct(actAfter, kind, idx)
		}
	}
}
