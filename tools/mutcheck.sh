#!/bin/bash
# usage: mutcheck.sh <patch-file|-> <prop> [prop...]   (development aid)
# applies a patch to a scratch worktree of /repo, runs the quick checks against it, removes the worktree.
set -u
patch=$1; shift
W=$(mktemp -d /tmp/mut.XXXXXX)
H=$(printf '%s' "$(readlink -f "$W")" | sha1sum | cut -c1-10)
git -C /repo worktree add -q --detach "$W" "${SEED_BASE:-HEAD}" || exit 3
if [ "$patch" != "-" ]; then git -C "$W" apply "$patch" || { git -C /repo worktree remove --force "$W"; exit 3; }; fi
if [ -n "${MUT_CMD:-}" ]; then (cd "$W" && bash -c "$MUT_CMD") || { git -C /repo worktree remove --force "$W"; exit 3; }; fi
(cd "$W" && GOFLAGS=-mod=mod GOPROXY=off GOSUMDB=off GOTOOLCHAIN=local go build ./... ) || { echo "MUTANT DOES NOT BUILD"; git -C /repo worktree remove --force "$W"; exit 3; }
for p in "$@"; do
  VERIF_REPO="$W" VERIF_REPLAY_KEEP=1 /verif/check "$p" 2>&1 | grep -E "^(DETAIL|VIOLATION|KNOWN-FINDING)|\[check\] (batch|violation did not|worker|build failed|watchdog)" | cut -c1-400
  echo "$p exit=${PIPESTATUS[0]}"
done
git -C /repo worktree remove --force "$W"
rm -rf /verif/build/bin/*-scratch-$H /verif/build/mod-*-scratch-$H /verif/build/overlay-*-scratch-$H 2>/dev/null
