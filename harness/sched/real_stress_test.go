package sched

import (
	"reflect"
	"testing"
)

func TestSeedRepeat(t *testing.T) {
	bad := 0
	for rep := 0; rep < 60; rep++ {
		for _, seed := range []uint64{19, 3, 7} {
			o1, c1, _ := chanRun(seed)
			o2, c2, _ := chanRun(seed)
			if !reflect.DeepEqual(c1, c2) || !reflect.DeepEqual(o1, o2) {
				bad++
				if bad < 4 {
					n := 0
					for n < len(c1) && n < len(c2) && c1[n] == c2[n] {
						n++
					}
					t.Logf("rep %d seed %d: differ at decision %d of %d/%d; deliveries %d vs %d", rep, seed, n, len(c1), len(c2), len(o1), len(o2))
				}
			}
		}
	}
	if bad > 0 {
		t.Fatalf("%d mismatches", bad)
	}
}
