// Package sched is the seeded token scheduler of the concurrent worlds (C11,
// C20). Tasks are real goroutines; exactly one holds the run token. The token
// is passed over per-task pipes with raw read/write system calls from
// //go:norace code and all scheduler state is touched only in //go:norace
// code, so that the race detector sees no happens-before edge created by the
// harness: the only edges are those of the program's own synchronisation
// (performed for real, uncontended, by package simsync). An execution
// serialised by the scheduler then reports a data race exactly when two
// accesses are not ordered by the code's own locks - deterministically for a
// given schedule.
package sched

import (
	"fmt"
	"hash/fnv"
	"os"
	"runtime"
	"sync"
	"sync/atomic"
	"syscall"
	"time"
)

// Task states.
const (
	runnable = iota
	blocked
	done
	created
	// realblocked: the task is inside an operation of the code under test that may block in the Go runtime
	// (a channel operation); it gave the token back before it and asks for it again afterwards (real.go)
	realblocked
)

// Task is one schedulable goroutine.
type Task struct {
	ID     int
	Name   string
	Daemon bool
	// Timer: the task stands for a timer of the code under test (it "fires" when it is picked)
	Timer   bool
	state   int
	on      any // object the task is blocked on
	rfd     int
	wfd     int
	prio    int
	started bool
	fn      func()
	// real blocking regions (real.go)
	goid      int64
	completed uint32
	status    string
}

// Event is one entry of the schedule log.
type Event struct {
	Seq  int
	Task int
	Kind string
	Obj  string
}

// Strategy parameters (part of the plan).
type Strategy struct {
	Kind    string `json:"kind"` // random | pct | rr
	Seed    uint64 `json:"seed"`
	D       int    `json:"d"`                 // pct change points / rr pre-emptions
	Horizon int    `json:"horizon"`           // estimated number of scheduling points
	Choices []int  `json:"choices,omitempty"` // recorded decisions: when present they are replayed first
}

// Sched is one scheduled run.
type Sched struct {
	tasks    []*Task
	cur      *Task
	strat    Strategy
	rng      *nrng
	points   int
	changeAt map[int]bool
	Choices  []int // decisions taken (task id per decision point with more than one candidate)
	replayI  int
	Diverged bool
	Steps    int
	MaxSteps int
	Events   []Event
	KeepLog  bool
	seq      int
	mainR    int
	mainW    int
	Deadlock bool
	StepCap  bool
	// reach counters
	BlockedWaits int      // times a task had to wait (lock held by a parked task, empty transport, condition)
	LockWaits    int      // ... of which for a lock
	Switches     int      // token hand-overs
	Stuck        []string // description of blocked tasks at a deadlock
	// OnQuiesce is called (in the context of the task that found nothing runnable)
	// when unfinished tasks exist but none is runnable; it may wake tasks and
	// return true to continue.
	OnQuiesce func() bool
	// LazyTimers: timers of the code under test fire only when nothing else can run (time passes while everybody
	// waits); otherwise they fire whenever the strategy picks them (any moment after their creation)
	LazyTimers bool
	// OnRealPark is called (scheduler context) when a task inside a channel operation of the code under test is
	// found parked in the Go runtime for the first time in that operation.
	OnRealPark func(t *Task)
	ordHash    uint64
	// join is the one visible synchronisation of the harness: finished tasks release into it, the main
	// goroutine acquires from it before reading what tasks wrote. Done() only releases, so it orders no
	// task after another task.
	join sync.WaitGroup
	// over: the run has ended cleanly; daemon tasks still parked are released so that their goroutines (and
	// the OS threads they occupy in the raw read) go away. From then on every scheduler call is a no-op.
	over bool
	// real blocking regions (real.go)
	nReal       int
	monCh       chan struct{}
	RealOps     int // operations that went through a real blocking region (channel operations of the code under test)
	RealParked  int // ... of which really parked in the Go runtime at least once
	TimeSources int // timers / deadlines created by the code under test that the scheduler does not control
	// TimeStall: the run ended (as Deadlock) with tasks parked in channel operations that only such a timer or deadline
	// could still complete: no verdict about completion
	TimeStall bool
	mon       Task
}

// stallAfter is the wall-clock guard of one scheduled run (runs take milliseconds).
const stallAfter = 180 * time.Second

var active *Sched

// Active returns the scheduler of the run in progress, or nil.
//
// A goroutine that is not the running task of that run - one left behind by an earlier run of this process, parked
// in a channel operation until something outside woke it - gets nil: it runs on as a plain goroutine.
//
//go:norace
func Active() *Sched {
	s := active
	if s != nil && s.cur != nil && s.cur.goid != 0 && realEver > 0 && s.cur.goid != curGoid() {
		if os.Getenv("VERIF_DEBUG_ACTIVE") != "" {
			buf := make([]byte, 4096)
			n := runtime.Stack(buf, false)
			fmt.Fprintf(os.Stderr, "ACTIVE-GUARD cur=%s goid=%d me=%d\n%s\n", s.cur.Name, s.cur.goid, curGoid(), buf[:n])
		}
		return nil
	}
	return s
}

// New creates a scheduler for one run.
func New(st Strategy, maxSteps int) *Sched {
	s := &Sched{strat: st, rng: newNrng(st.Seed), MaxSteps: maxSteps, changeAt: map[int]bool{}}
	h := st.Horizon
	if h <= 0 {
		h = 400
	}
	for i := 0; i < st.D; i++ {
		s.changeAt[s.rng.Intn(h)] = true
	}
	var p [2]int
	if err := syscall.Pipe(p[:]); err != nil {
		panic(err)
	}
	s.mainR, s.mainW = p[0], p[1]
	s.monCh = make(chan struct{}, 64)
	s.mon = Task{ID: -1, Name: "monitor", state: done}
	return s
}

//go:norace
func rawWrite(fd int) {
	b := [1]byte{1}
	for {
		_, _, e := syscall.Syscall(syscall.SYS_WRITE, uintptr(fd), uintptr(ptr(&b)), 1)
		if e == syscall.EINTR || e == syscall.EAGAIN {
			continue
		}
		return
	}
}

//go:norace
func rawRead(fd int) {
	var b [1]byte
	for {
		n, _, e := syscall.Syscall(syscall.SYS_READ, uintptr(fd), uintptr(ptr(&b)), 1)
		if e == syscall.EINTR || e == syscall.EAGAIN {
			continue
		}
		if n == 1 || e != 0 {
			return
		}
		if n == 0 {
			// closed: park for ever
			select {}
		}
	}
}

// Go adds a task. It may be called before Run or from the running task.
//
//go:norace
func (s *Sched) Go(name string, daemon bool, fn func()) *Task {
	var p [2]int
	if err := syscall.Pipe(p[:]); err != nil {
		panic(err)
	}
	t := &Task{ID: len(s.tasks), Name: name, Daemon: daemon, state: runnable, rfd: p[0], wfd: p[1], fn: fn}
	t.prio = 1000 + s.rng.Intn(1000000)
	s.tasks = append(s.tasks, t)
	if !daemon {
		s.join.Add(1)
	}
	go s.taskMain(t)
	return t
}

func (s *Sched) taskMain(t *Task) {
	s.setGoid(t)
	rawRead(t.rfd) // wait for the token
	if s.isOver() {
		s.closeTask(t)
		return
	}
	s.begin(t)
	defer s.finish(t)
	t.fn()
}

//go:norace
func (s *Sched) setGoid(t *Task) { t.goid = curGoid() }

//go:norace
func (s *Sched) isOver() bool { return s.over }

// Over reports whether the run has ended (daemon tasks released after the end see true).
//
//go:norace
func (s *Sched) Over() bool { return s.over }

//go:norace
func (s *Sched) closeTask(t *Task) {
	syscall.Close(t.rfd)
	syscall.Close(t.wfd)
}

//go:norace
func (s *Sched) begin(t *Task) { t.started = true }

// finish marks the task done and hands the token on.
//
//go:norace
func (s *Sched) finish(t *Task) {
	if r := recover(); r != nil {
		// a panic in a task is part of the run's verdict: re-raise after recording would kill the process;
		// tasks recover their own panics, so this is a harness bug
		panic(r)
	}
	if s.over {
		s.closeTask(t)
		return
	}
	t.state = done
	s.record(t, "done", "")
	if !t.Daemon {
		s.join.Done()
	}
	s.dispatch(t)
}

//go:norace
func (s *Sched) record(t *Task, kind, obj string) {
	s.seq++
	if s.KeepLog {
		s.Events = append(s.Events, Event{Seq: s.seq, Task: t.ID, Kind: kind, Obj: obj})
	}
	if kind == "lock" || kind == "rlock" || kind == "write" || kind == "read" || kind == "condwake" {
		h := fnv.New64a()
		var b [8]byte
		x := s.ordHash
		for i := 0; i < 8; i++ {
			b[i] = byte(x >> (8 * i))
		}
		h.Write(b[:])
		h.Write([]byte{byte(t.ID)})
		h.Write([]byte(kind))
		h.Write([]byte(obj))
		s.ordHash = h.Sum64()
	}
}

// Seq returns the current event sequence number (and advances it), for
// stamping history events.
//
//go:norace
func (s *Sched) Stamp() int { s.seq++; return s.seq }

// OrderHash identifies the interleaving (order of lock acquisitions and I/O).
//
//go:norace
func (s *Sched) OrderHash() string { return fmt.Sprintf("%016x", s.ordHash) }

// Current returns the running task.
//
//go:norace
func (s *Sched) Current() *Task { return s.cur }

//go:norace
func (s *Sched) runnableTasks() []*Task {
	var out, timers []*Task
	for _, t := range s.tasks {
		if t.state == runnable {
			if t.Timer && s.LazyTimers {
				timers = append(timers, t)
				continue
			}
			out = append(out, t)
		}
	}
	if len(out) == 0 {
		// nothing else can run: time passes, timers fire
		return timers
	}
	return out
}

// SetLazyTimers switches the timer policy (callable from tasks).
//
//go:norace
func (s *Sched) SetLazyTimers(v bool) { s.LazyTimers = v }

// GoTimer adds a daemon task that stands for a timer of the code under test.
//
//go:norace
func (s *Sched) GoTimer(name string, fn func()) *Task {
	t := s.Go(name, true, fn)
	t.Timer = true
	return t
}

// choose picks the next task among the candidates.
//
//go:norace
func (s *Sched) choose(cands []*Task, cur *Task) *Task {
	if len(cands) == 1 {
		return cands[0]
	}
	has := func(id int) *Task {
		for _, c := range cands {
			if c.ID == id {
				return c
			}
		}
		return nil
	}
	var pick *Task
	if s.replayI < len(s.strat.Choices) {
		pick = has(s.strat.Choices[s.replayI])
		s.replayI++
		if pick == nil {
			s.Diverged = true
		}
	} else if len(s.strat.Choices) > 0 {
		// recorded prefix exhausted: simplest continuation
		if cur != nil && cur.state == runnable {
			pick = cur
		} else {
			pick = cands[0]
		}
	}
	if pick == nil && len(s.strat.Choices) == 0 {
		s.points++
		switch s.strat.Kind {
		case "pct":
			if s.changeAt[s.points] && cur != nil {
				cur.prio = -s.points // lowest from now on
			}
			for _, c := range cands {
				if pick == nil || c.prio > pick.prio {
					pick = c
				}
			}
		case "rr":
			if cur != nil && cur.state == runnable && !s.changeAt[s.points] {
				pick = cur
			} else {
				pick = cands[s.rng.Intn(len(cands))]
			}
		default:
			pick = cands[s.rng.Intn(len(cands))]
		}
	}
	if pick == nil {
		pick = cands[0]
	}
	s.Choices = append(s.Choices, pick.ID)
	return pick
}

// dispatch hands the token to the next task; from is the calling task (which
// stays parked afterwards unless it is chosen itself or is done).
//
//go:norace
func (s *Sched) dispatch(from *Task) {
	if s.over {
		return
	}
	for {
		s.Steps++
		if s.Steps > s.MaxSteps {
			s.StepCap = true
			s.describeStuck()
			rawWrite(s.mainW)
			select {}
		}
		if s.nReal > 0 {
			s.settle()
		}
		cands := s.runnableTasks()
		if len(cands) == 0 {
			unfinished := false
			for _, t := range s.tasks {
				if t.state != done && !t.Daemon {
					unfinished = true
				}
			}
			onlyDaemons := !unfinished
			if onlyDaemons {
				// the run is over (daemons may stay blocked): a daemon that found this out parks like any other
				// blocked task, so that stop() can release it
				rawWrite(s.mainW)
				if from.state == done {
					return
				}
				rawRead(from.rfd)
				return
			}
			if s.OnQuiesce != nil && s.OnQuiesce() {
				continue
			}
			if s.nReal > 0 && s.graceWait() {
				continue
			}
			s.Deadlock = true
			s.describeStuck()
			rawWrite(s.mainW)
			if from.state == done {
				return
			}
			select {}
		}
		next := s.choose(cands, from)
		if next == from {
			s.cur = from
			return
		}
		s.cur = next
		s.Switches++
		rawWrite(next.wfd)
		if from.state == done {
			return
		}
		rawRead(from.rfd)
		if s.over {
			return
		}
		s.cur = from
		return
	}
}

//go:norace
func (s *Sched) describeStuck() {
	var dump map[int64]string
	for _, t := range s.tasks {
		if t.state == blocked {
			s.Stuck = append(s.Stuck, fmt.Sprintf("%s blocked on %v", t.Name, describe(t.on)))
		}
		if t.state == realblocked {
			if dump == nil {
				dump = allStacks()
			}
			s.Stuck = append(s.Stuck, fmt.Sprintf("%s blocked in a channel operation [%s]", t.Name, dump[t.goid]))
		}
	}
}

func describe(o any) string {
	if d, ok := o.(interface{ SimName() string }); ok {
		return d.SimName()
	}
	return fmt.Sprintf("%T", o)
}

// Yield is a scheduling point: the current task stays runnable.
//
//go:norace
func (s *Sched) Yield(kind, obj string) {
	if s.over {
		return
	}
	t := s.cur
	s.record(t, kind, obj)
	s.dispatch(t)
}

// Note records an event without yielding.
//
//go:norace
func (s *Sched) Note(kind, obj string) {
	if s.over {
		return
	}
	s.record(s.cur, kind, obj)
}

// Wait blocks the current task on obj until some task calls Wake(obj).
//
//go:norace
func (s *Sched) Wait(obj any, kind string) {
	if s.over {
		return
	}
	t := s.cur
	t.state = blocked
	t.on = obj
	s.BlockedWaits++
	if kind == "lockwait" || kind == "rlockwait" {
		s.LockWaits++
	}
	s.record(t, kind, describe(obj))
	s.dispatch(t)
}

// Wake makes every task blocked on obj runnable again (they re-check their
// condition).
//
//go:norace
func (s *Sched) Wake(obj any) int {
	n := 0
	for _, t := range s.tasks {
		if t.state == blocked && t.on == obj {
			t.state = runnable
			t.on = nil
			n++
		}
	}
	return n
}

// WakeTask makes one task runnable.
//
//go:norace
func (s *Sched) WakeTask(t *Task) {
	if t.state == blocked {
		t.state = runnable
		t.on = nil
	}
}

// BlockedOn lists the tasks blocked on obj.
//
//go:norace
func (s *Sched) BlockedOn(obj any) []*Task {
	var out []*Task
	for _, t := range s.tasks {
		if t.state == blocked && t.on == obj {
			out = append(out, t)
		}
	}
	return out
}

// Tasks returns all tasks.
//
//go:norace
func (s *Sched) Tasks() []*Task { return s.tasks }

// IsBlocked reports whether the task is blocked, and on what.
//
//go:norace
func (t *Task) IsBlocked() (bool, any) { return t.state == blocked, t.on }

// IsDone reports whether the task has finished.
//
//go:norace
func (t *Task) IsDone() bool { return t.state == done }

// Run starts the schedule and returns when every non-daemon task has finished,
// or on deadlock / step cap. It must be called from a goroutine that is not a task.
func (s *Sched) Run() {
	// wall-clock guard: a task that blocks outside the seams of the scheduler (a channel operation, a real
	// sleep) keeps the token for ever. That is trouble of the machinery, never a verdict: leave loudly.
	finished := make(chan struct{})
	defer close(finished)
	go func() {
		// counted in 100 ms naps that really took about 100 ms: a frozen machine or process accumulates none
		const nap = 100 * time.Millisecond
		for count := 0; count < int(stallAfter/nap); {
			t0 := time.Now()
			select {
			case <-finished:
				return
			case <-time.After(nap):
			}
			if time.Since(t0) > 10*nap {
				count = 0
				continue
			}
			count++
		}
		fmt.Fprintf(os.Stderr, "VERIF-STALL: a scheduled run did not finish within %v of wall-clock time (a task blocked outside the scheduler's seams?)\n", stallAfter)
		os.Exit(97)
	}()
	go s.monitor()
	s.start()
	rawRead(s.mainR)
	if !s.aborted() {
		s.join.Wait()
	}
	s.stop()
}

//go:norace
func (s *Sched) start() {
	active = s
	cands := s.runnableTasks()
	if len(cands) == 0 {
		rawWrite(s.mainW)
		return
	}
	first := s.choose(cands, nil)
	s.cur = first
	rawWrite(first.wfd)
}

//go:norace
func (s *Sched) stop() {
	active = nil
	clean := !s.Deadlock && !s.StepCap
	if clean {
		// every task is done or a daemon parked for ever; pipes of finished tasks can go
		s.over = true
		for _, t := range s.tasks {
			switch {
			case t.state == done:
				syscall.Close(t.rfd)
				syscall.Close(t.wfd)
			case t.state == realblocked && atomic.LoadUint32(&t.completed) == 0:
				// a daemon parked in a channel operation nobody will complete: its goroutine stays (as it would in
				// the real program); should it ever wake it finds the token waiting and runs on unsupervised
				rawWrite(t.wfd)
				leakedReal++
			default:
				rawWrite(t.wfd) // a daemon parked for ever: let its goroutine run to its end
			}
		}
	}
	close(s.monCh) // the monitor leaves
	syscall.Close(s.mainR)
	syscall.Close(s.mainW)
}

//go:norace
func (s *Sched) aborted() bool { return s.Deadlock || s.StepCap }

// Aborted reports whether the run ended by deadlock or step cap; the process
// must not run another schedule afterwards (goroutines are left parked).
func (s *Sched) Aborted() bool { return s.Deadlock || s.StepCap }

// nrng is a small PRNG (splitmix64) whose methods are //go:norace: the
// scheduler draws from it in the context of arbitrary tasks.
type nrng struct{ x uint64 }

func newNrng(seed uint64) *nrng { return &nrng{x: seed*0x9e3779b97f4a7c15 + 0x1234567} }

//go:norace
func (r *nrng) next() uint64 {
	r.x += 0x9e3779b97f4a7c15
	z := r.x
	z = (z ^ (z >> 30)) * 0xbf58476d1ce4e5b9
	z = (z ^ (z >> 27)) * 0x94d049bb133111eb
	return z ^ (z >> 31)
}

//go:norace
func (r *nrng) Intn(n int) int {
	if n <= 1 {
		return 0
	}
	return int(r.next() % uint64(n))
}
