package sim

import (
	"fmt"
	"strings"
	"testing"
	"testing/synctest"
	"time"
)

// Epoch is the instant at which every bubble's simulated clock starts.
var Epoch = time.Date(2000, 1, 1, 0, 0, 0, 0, time.UTC)

// InBubble runs f inside a fresh synctest bubble (fake clock starting at Epoch,
// advancing only when every goroutine of the bubble is durably blocked). It
// returns a description of a panic or bubble deadlock, or "".
func InBubble(t *testing.T, f func()) (failure string) {
	done := make(chan string, 1)
	go func() {
		res := ""
		defer func() {
			if r := recover(); r != nil {
				res = fmt.Sprintf("bubble: %v", r)
			}
			done <- res
		}()
		synctest.Test(t, func(t *testing.T) {
			defer func() {
				if r := recover(); r != nil {
					res = fmt.Sprintf("panic in bubble root: %v", r)
				}
			}()
			f()
		})
	}()
	// The bubble sees a deadlock only when every goroutine is blocked on something the simulated clock knows
	// (channels, timers, pipes). A goroutine waiting for a sync.Mutex that nobody will release is invisible to
	// it: the bubble then neither ends nor advances. Runs take milliseconds of real time; after RealTimeGuard
	// the run is declared stalled. The process must not execute further plans afterwards (Stalled).
	if QuietFor(RealTimeGuard, done, &failure) {
		return failure
	}
	Stalled = true
	return fmt.Sprintf("bubble: deadlock (no progress within %v of real time: a goroutine waits for something that is never released, e.g. a mutex left locked)", RealTimeGuard)
}

// QuietFor waits for a value on done and stores it in *out (true), or gives up (false) after the process has
// demonstrably been running for d without one. Time is counted in 100 ms naps that really took about 100 ms: while
// the machine or the process is frozen (virtual machine snapshot, SIGSTOP, swap storm) no naps are counted, and a
// nap that overslept resets the count - only a process that is being scheduled normally and still makes no progress
// is declared stalled.
func QuietFor(d time.Duration, done <-chan string, out *string) bool {
	const nap = 100 * time.Millisecond
	need := int(d / nap)
	count := 0
	for count < need {
		t0 := time.Now()
		select {
		case v := <-done:
			*out = v
			return true
		case <-time.After(nap):
		}
		if time.Since(t0) > 10*nap {
			count = 0 // overslept: the process was not running normally
			continue
		}
		count++
	}
	return false
}

// RealTimeGuard bounds the real time of one bubble.
var RealTimeGuard = 150 * time.Second

// Stalled is set when a bubble was abandoned by the real-time guard: its goroutines are still there.
var Stalled bool

// SimNow returns seconds since Epoch on the current (bubble) clock.
func SimNow() float64 { return time.Since(Epoch).Seconds() }

// Recycle is set by a world when this process should not execute further plans although nothing went wrong (finished
// runs left too many goroutines of the code under test behind): exploration ends early, results are reported as usual.
var Recycle bool

// LeftoverOnly reports whether a bubble failure says no more than this: the root function - which invokes every
// operation of the code under test and waits for it - has returned, and goroutines that are blocked for ever remain. Every
// operation completed, so this is no standstill of an operation: code may legitimately leave a goroutine behind (a
// worker that serves a channel nobody closes, a connection kept for later).
func LeftoverOnly(fail string) bool {
	return strings.Contains(fail, "main bubble goroutine has exited")
}
