#!/usr/bin/env python3
"""Regenerates /verif/MANIFEST.json from the table below (development aid)."""
import json, os, subprocess
V = os.path.dirname(os.path.dirname(os.path.abspath(__file__)))

CHECKS = {
 "C01": ("exploration", "5.C01", "seeded search over simulated worlds (users x key-directory states x untrusted-agent behaviours x handler lists x run histories) of the real gensign.Run + regular handler against a scripted forwarded agent and CA in one process; invariant checked on every run: no CA call / agent add without a verifying signature over a fresh >=16-byte challenge under a key registered for the login name; every plan executed twice in fresh bubbles to expose clock-derived challenges",
         "trusts ssh.PublicKey.Verify and the x/crypto wire codec; entropy left real on purpose; file system real (states set, no I/O faults); sampling, not proof",
         "deterministic simulation: scripted untrusted agent + invariant over recorded run history"),
 "C02": ("exploration", "5.C02", "every signing request received by the scripted CA in any simulated run (odd strings, all key-identifier spellings, faults) is compared with an independent reading of the property: principal = LOGNAME, validity, five extensions, configured slot, fresh RA key equal to the key added to the agent, KeyID decoded with encoding/json and with keyid.Unmarshal",
         "expected extension set and KeyID field names are hard-coded in the oracle from README/property text; sampling",
         "deterministic simulation: invariant at the simulated CA node"),
 "C03": ("exploration", "5.C03", "histories of 1..6 successful and failing runs on one simulated agent with pre-existing near-miss identities, clock jumps between runs and agent/CA faults; after each run the agent model is inspected directly: new key and all returned certificates present and able to sign, finite lifetimes >= validity, one generation only, foreign identities untouched, early failures keep old certificates",
         "agent model (refagent) is the specification of an ssh-agent (lifetimes on the simulated clock, same-blob replace); sampling",
         "deterministic simulation: history oracle over agent model state, simulated clock"),
 "C04": ("fault_enumeration", "5.C04", "per seeded scenario every single-fault placement is enumerated completely: each agent request index x 9 reply/connection faults, each signer call x {error, panic}, each stub handler method x panic; result kind must match the phase in which the fault fired, success only with all certificates delivered, no certificate without CA signature, no escaping panic",
         "scenarios are sampled (handlers, certificates per request, prior runs); within a scenario the single-fault space is exhaustive; malformed (non-refusal) replies may map to the panic kind (not decided by the property)",
         "fault-point enumeration inside the simulated world"),
 "C12": ("exploration", "5.C12", "seeded byte streams (frame grammar: every code, zero/one-byte frames, both add-hardware-certificate encodings, truncated and corrupted bodies, oversize prefixes, truncated key constraints) delivered through a scripted transport with 1-byte chunking, EOF / read error / write error at chosen offsets to the real yubiagent.ServeAgent serving a recording stub or the full server->shim->agent-model stack; replies attributed to request frames through transport positions",
         "expected replies of standard requests rely on the x/crypto wire codec; allocation oracle uses runtime.MemStats (8 MiB threshold); sampling",
         "deterministic simulation: stream faults on a scripted transport"),
 "C06": ("exploration", "5.C06", "generated PKI (two pool roots, foreign CA, self-signed; device certificate valid / expired / not yet valid / lapsing at a planned instant) and slot certificates whose signature is EM^d mod N for a chosen encoded message (both DigestInfo encodings, 17 mutation classes, all pooled RSA sizes 1024..4096, non-RSA device key, every algorithm label class); Attest is called at planned instants of the simulated clock (before / after the lapse, decades later) and must accept exactly when the chain holds at that instant and the message is well-formed",
         "only the clock dimension is simulation proper, the encoded-message space rides along as workload (stated in DESIGN.md); RSA-signature-under-ECDSA/DSA-label is treated as undecided; sampling",
         "deterministic simulation: simulated clock positions over a generated PKI; reference predicate as oracle"),
 "C07": ("exploration", "5.C07", "sequential histories (8..42 steps) on the real shim over the reference agent inside a bubble: add / add-hardware-certificate / remove / list / signers / sign, clock jumps (incl. one second before and after a planned expiry, decades), key removal and locking of the underlying agent behind the shim's back; after every step listing, sign outcome and the underlying agent (inspected directly) are compared with the tri-state model",
         "model written from the property text; now == ValidBefore and 'only a certificate over the key is listed' are explicit undecided bands; sampling",
         "deterministic simulation: simulated clock + reference model checked step by step"),
 "C08": ("exploration", "5.C08", "histories dense in lock / unlock (right, wrong, empty passphrases) interleaved with every other operation, with the underlying agent refusing or dropping lock / unlock requests; while locked: List empty, every mutating or disclosing call fails, underlying identities unchanged; refused lock/unlock leave the shim's state unchanged; unlock restores the pre-lock view",
         "as C07; after an injected upstream fault the comparison is relaxed narrowly (faulted call may fail, state resynchronised after checking that nothing unexplained changed)",
         "deterministic simulation: upstream fault injection on lock/unlock + reference model"),
 "C09": ("exploration", "5.C09", "every history is executed on two shims (no-upstream on and off) over identical agents in separate bubbles; listings must be equal minus the upstream certificates whose KeyID decodes (15 KeyID classes: every certificate type, near misses, free text), hidden certificates refuse to sign with a key-not-found error and stay removable, in-memory certificates are never hidden",
         "'decodes as a YSSHCA KeyID' is delegated to keyid.Unmarshal (the codec itself is C05); sampling",
         "deterministic simulation: two-mode differential over the same history"),
 "C10": ("exploration", "5.C10", "histories over RSA/ECDSA/Ed25519 keys with add-hardware-certificate, raw forward and extension relays, under upstream faults at any request index (failure reply, empty / garbage / truncated / wrong-type / oversized reply, connection closed before / in / after a reply) and construction failures through the real shimagent.New on a unix socket; faulted call may fail but never panics, upstream damage must be explainable, still-valid in-memory certificates survive transient faults, relays are byte-exact, signatures verify under the certified key",
         "the unix socket of the construction scenarios is a real kernel object (strict request/response, not scheduled); sampling",
         "deterministic simulation: upstream fault injection + reference model"),
 "C13": ("exploration", "5.C13", "operation sequences through the real yubiagent client over a chunked duplex transport (1-byte reads, split writes) to ServeAgent serving a recording stub with scripted results and failures; arguments recorded by the served agent and results seen by the caller must be byte-identical; slot operations run against the concrete server (hook) with a stub PIV tool whose output is generated (short / truncated 'Slot' lines, CRLF line ends, lines above 64 KiB, empty output, non-zero exit) and against a remote-mode server; sessions run inside a bubble so that an operation that never completes is detected exactly",
         "error texts '' and 'SUCCESS' are excluded (protocol-inherent ambiguity); the PIV tool is a real child process; sampling",
         "deterministic simulation: chunked transport + recording served agent"),
 "C17": ("exploration", "5.C17", "the real crypki.Signer (gRPC, TLS, retry interceptor, back-off) against 0..4 simulated endpoints (real grpc.Server over in-memory listeners) inside a bubble: dial refused / stalled / slow / cut mid-RPC, scripted replies per attempt (any status code, stalled handler, unparsable or empty key material, 0..3 certificates and comment shapes); endpoints contacted in order, request unmodified, result = first successful reply, exhaustion and empty lists are errors, retry gaps within [0, 18 s] of simulated time, Sign returns within the simulated time the configured retries / per-try timeouts / maximal back-off allow; plus direct evaluation of the back-off for seeded configurations and attempt numbers up to 2^32-1 at several simulated instants",
         "crypki.NewSigner is built outside the bubble (its certificate reloader never stops); which status codes are retried is not asserted (endpoints that succeed only on a retry are 'maybe'); sampling",
         "deterministic simulation: simulated network with fault injection under a simulated clock"),
 "C18": ("exploration", "5.C18", "as C17 with impostor endpoints in every position: certificates from a foreign CA, self-signed, expired / not yet valid in simulated time, valid for another name, servers offering only TLS <= 1.1, servers that require / request / ignore client certificates, CA bundles of 1..3 files; no CSR may ever reach an impostor's handler, the reply of an impostor is never returned, a later genuine endpoint is still used, genuine servers observe exactly the configured client certificate over TLS >= 1.2",
         "real crypto/tls and crypto/x509 on both sides; the process-wide system trust store holds the CA of the foreign-CA impostors so that trusting more than the configured files is observable; sampling",
         "deterministic simulation: impostor servers on a simulated network"),
 "C11": ("exploration", "5.C11", "2..16 client tasks x 1..6 operations (list / signers / sign / add / remove / remove-all / add-hardware-certificate / lock / unlock / extension / raw forward / sign through a handed-out signer) on one shared shim over the reference agent (directly, or - 30 % of the plans - each client through its own yubiagent client and a ServeAgent task per connection), every lock operation and every transport read/write being a scheduling point of the seeded token scheduler (random walk, PCT, bounded pre-emption), built with -race: (1) no race detector report whose two accessing functions are code under test - the scheduler is invisible to the detector, so a serialised run reports exactly the accesses not ordered by the code's own locks; (2) transport discipline on the upstream connection (each request frame from one task, each reply read by its requester); (3) replies carry the caller's own tag; (4) no deadlock within the step cap (a process crash is a violation too); (5) the recorded history plus the final upstream snapshot is linearizable against the sequential shim model (porcupine)",
         "sync is replaced by the scheduler-aware simsync in agent/shimagent, agent/yubiagent (build overlay) and in a copy of x/crypto's agent client; goroutines, callback timers and channel operations of the code under test in these packages are under the scheduler's control (a select with several ready cases is decided by the Go runtime; tickers and re-armed timers run in real time); fmt/sync.Pool inside the code under test can add happens-before edges that hide a race in some schedules; porcupine Unknown (timeout) is counted, never reported; sampling of schedules",
         "deterministic simulation: seeded schedule exploration with race-detector, transport and linearizability oracles"),
 "C20": ("exploration", "5.C20", "1..8 waiters (through the real yubiagent client -> ServeAgent -> concrete server, and direct Server.Wait callers) on equal and different codes 0..255 and requester connections sending requests with matching and non-matching codes, under the token scheduler: a waiter released during the run must have had a request with its code in flight after it registered; at every quiescent point (all tasks blocked) a still parked waiter must not have been preceded by a later request with its code; codes outside the table return without parking; no panic, no deadlock",
         "the harness releases the waiters left at quiescent points itself (clean-up broadcasts, accounted per code); request 'received' is approximated by the client-side send/reply interval; sampling of schedules",
         "deterministic simulation: seeded schedule exploration with condition-variable bookkeeping as oracle"),
}
NA = {
 "C05": "pure function of its input (KeyID Marshal/Unmarshal): no schedule, clock, transport, fault or history for a simulator to control; deciding it means generating inputs, which is another technique (DESIGN.md section 6)",
 "C14": "pure function of injected strings (csr.NewReqParam); the only nondeterminism is an entropy source that cannot fail; world G builds its parameters through it and C02 checks what reaches the CA, but totality over arbitrary command text is input generation (DESIGN.md section 6)",
 "C15": "pure function (message encode/decode round trip): nothing for the simulator to schedule or fail (DESIGN.md section 6)",
 "C16": "pure functions of bytes (lenient certificate parser, PEM bundles, ModHex); the parser never consults the clock (DESIGN.md section 6)",
 "C19": "pure total function of a KeyID and one option (certificate type/label/principal suffix) (DESIGN.md section 6)",
}
PENDING = {}

# what seeded-change waves 5-7 added to the worlds (DESIGN 14.2), appended to the level text
ADDENDA = {
 "C01": "; login names that merely resemble a registered one, refusing handlers of every error kind, CA clock skew, one RA process serving several requests; two requests served by one process at the same time (also for the same login name with and without the key), a key registered later under the other file spelling, file-system trouble in the key directory (dangling links, link loops)",
 "C02": "; old / boundary client versions, odd host spellings, the key_label option, handler objects reused for a second request; two requests of different login names served by one process at the same time, a validity configured as zero",
 "C03": "; CA clock skew and staggered validity windows, the key_label option, certificates the RA provisioned tracked by blob across runs; a validity configured as zero, the lifetime compared with the validity the RA asked the CA for",
 "C04": "; refusing handlers of every error kind, failing agent keys at every placement; a refusal that is repeated whenever the same request comes again, panic values of several dynamic types",
 "C06": "; signature length alterations, DER-consistent DigestInfo values with extra octets, device keys with public exponents 3 / 17 / 257 and 5120 / 8192-bit moduli, a look-alike CA, a genuine attestation preceding the judged one on the same Attestor; well-formed encoded messages that are shorter than the modulus",
 "C07": "; security-key certificates, faults of the underlying agent on the purge path (a listing that succeeds under a fault discloses nothing), another shim instance before the judged history; another client of the underlying agent adding identities while a call of the shim is in flight, an underlying agent that refuses every removal, no signature with a certificate outside its validity whatever the agent refused meanwhile",
 "C08": "; passphrase variants (line terminators, NUL, case), buffers overwritten after the call, out-of-band (un)locking of the underlying agent while the shim is locked; a raw relay answered late by the underlying agent followed by lock / unlock with a wrong and the right passphrase",
 "C09": "; KeyID documents in other JSON spellings and above 1 KiB, security-key certificates; another client adding YSSHCA certificates to the underlying agent between the two listings of one Signers call",
 "C10": "; ordering comparators, slow but honest replies on the simulated clock, buffers overwritten after calls, and the rule that a fault which turns a successful answer into a failure cannot end in a successful call; an accepted hardware certificate must be able to sign right away (also when the underlying agent lists the key only inside another certificate), replies of raw relays kept by the caller and compared again at the end of the history, another client changing the underlying agent during a call",
 "C11": "; goroutines, callback timers, WaitGroups and channel operations (send, receive, select, range) of the code under test are scheduling seams too - a deadlock in a channel operation is a verdict -, read deadlines armed by the shim may expire, failure replies of the underlying agent, larger per-caller payloads, a scheduling point before a caller looks at its reply",
 "C12": "; complete frames of 64 KiB .. 1 MiB (thorough: 16 MiB), a transport that reports the end of the stream with the last bytes; frames whose payload is exactly 16 MiB and a few octets less, a served agent that answers late (late actions are observed before the bubble's root returns), a byte stream that honours read / write deadlines on the simulated clock",
 "C13": "; smartcard add / remove, signing through client signers with the negotiated RSA algorithm, kept key objects compared again at the end of the session, a PIV tool whose output changes between calls; two clients on two connections asking for the certificate and the attestation of one slot at the same time, sessions with a served agent that takes 2 s .. 1 h over one request",
 "C17": "; endpoints that heal between Sign calls on one Signer, CA signature formats per certificate, unusual request shapes, a parent context that is already over",
 "C18": "; chained client certificate files, a sibling TLS client configuration (built and used before the signer) with another CA bundle, impostors issued by that CA, by the client certificate's CA, or named as the first endpoint",
 "C20": "; a sibling agent in the same process, real lock / unlock requests, goroutines, timers and channel operations of the code under test under the scheduler's control",
}

def main():
    checks = []
    for pid, (level, ref, text, note, tech) in sorted(CHECKS.items()):
        checks.append({
            "property_id": pid,
            "quick_cmd": "./check %s" % pid,
            "thorough_cmd": "VERIF_TIER=thorough ./check %s" % pid,
            "evidence_file": "/verif/evidence/%s.json" % pid,
            "replay_cmd_template": "./check %s --replay {path}" % pid,
            "engine": "detsim",
            "level_claimed": {"category": level, "text": text + ADDENDA.get(pid, ""), "design_ref": ref},
            "level_note": note,
            "technique": tech,
        })
    na = [{"property_id": k, "reason": v} for k, v in sorted({**NA, **PENDING}.items()) if k not in CHECKS]
    hooks = subprocess.run(["git", "-C", "/repo", "log", "--format=%H", "--grep=^verif:"], capture_output=True, text=True).stdout.split()
    man = {
        "version": 1,
        "setup_cmd": "./tools/setup.sh",
        "hooks": {
            "guard": "verif",
            "enable": "go build tag: go1.26.8 test -c -tags verif (checks add -race, -overlay and a patched x/crypto copy for the scheduled worlds)",
            "baseline_off_cmd": "cd /repo && GOFLAGS=-mod=mod GOPROXY=off GOSUMDB=off go test -json -vet=off -count=1 -timeout 25m ./...",
            "source_commits": hooks,
            "add_only": True,
        },
        "engines": [{"name": "detsim", "path": "/verif/harness", "serves_properties": sorted(CHECKS),
                     "kind_free_text": "deterministic simulation with fault injection: seeded plans (world, workload, faults, schedule) executed against the real packages inside one process (synctest clock, simulated transports, reference agent model, token scheduler), oracles over recorded histories, minimised replay files"}],
        "checks": checks,
        "not_applicable": na,
        "notes": "All checks rebuild the harness against /repo's working tree (replace directive) with -tags verif. Exit 0 held / 1 VIOLATION with replay / 2 infrastructure. See DESIGN.md.",
    }
    json.dump(man, open(os.path.join(V, "MANIFEST.json"), "w"), indent=1)
    print("wrote MANIFEST.json with %d checks, %d not applicable" % (len(checks), len(na)))

if __name__ == "__main__":
    main()
