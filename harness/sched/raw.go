package sched

import "unsafe"

//go:norace
func ptr(b *[1]byte) unsafe.Pointer { return unsafe.Pointer(b) }
