package worlds

import (
	"golang.org/x/crypto/ssh"
	"golang.org/x/crypto/ssh/agent"

	"verifsim/shimmodel"
)

// Catalog is exported for the concurrent world, which shares the catalog of
// keys and certificates with the sequential shim world.
type Catalog = catalog

// NewCatalog builds a catalog.
func NewCatalog(ks []SKey, cs []SCert) *Catalog { return newCatalog(ks, cs) }

func (c *catalog) Pub(role string) ssh.PublicKey                     { return c.pub(role) }
func (c *catalog) IsCert(role string) bool                           { return c.isCert(role) }
func (c *catalog) Added(role string, lifetime uint32) agent.AddedKey { return c.added(role, lifetime) }
func (c *catalog) Ident(role string, lt uint32, now int64) shimmodel.Ident {
	return c.ident(role, lt, now)
}
func (c *catalog) RoleOf(blob []byte) string { return c.roleOf(blob) }

// KeyIDClasses lists the KeyID text classes.
func KeyIDClasses() []string { return keyIDClasses }
