package worldw

import (
	"crypto/rand"
	"crypto/x509"
	"crypto/x509/pkix"
	"math/big"
	"sync"
	"time"

	"verifsim/keys"
)

var (
	certOnce sync.Once
	certDER  []byte
)

// bigCertDER is a larger certificate (RSA-4096 key, many SANs) for the slot operations.
var (
	bigOnce sync.Once
	bigDER  []byte
)

func bigCertDER() []byte {
	bigOnce.Do(func() {
		k := keys.RSA(4096, 0)
		tmpl := &x509.Certificate{
			SerialNumber: big.NewInt(4096),
			Subject:      pkix.Name{CommonName: "verif big slot certificate", Organization: []string{"an organisation with a rather long name to make the certificate larger"}},
			NotBefore:    time.Date(1999, 1, 1, 0, 0, 0, 0, time.UTC),
			NotAfter:     time.Date(2100, 1, 1, 0, 0, 0, 0, time.UTC),
		}
		for i := 0; i < 40; i++ {
			tmpl.DNSNames = append(tmpl.DNSNames, "host-"+string(rune('a'+i%26))+".subdomain.example.com")
		}
		der, err := x509.CreateCertificate(rand.Reader, tmpl, tmpl, k.Public(), k)
		if err != nil {
			panic(err)
		}
		bigDER = der
	})
	return bigDER
}

// testCertDER is a self-signed P-256 certificate used as slot certificate.
func testCertDER() []byte {
	certOnce.Do(func() {
		k := keys.EC(256, "slotcert")
		tmpl := &x509.Certificate{
			SerialNumber: big.NewInt(42),
			Subject:      pkix.Name{CommonName: "verif slot"},
			NotBefore:    time.Date(1999, 1, 1, 0, 0, 0, 0, time.UTC),
			NotAfter:     time.Date(2100, 1, 1, 0, 0, 0, 0, time.UTC),
		}
		der, err := x509.CreateCertificate(rand.Reader, tmpl, tmpl, k.Public(), k)
		if err != nil {
			panic(err)
		}
		certDER = der
	})
	return certDER
}

// attestCertDER is another self-signed certificate: what the stub PIV tool prints for `attest` (the slot's attestation
// certificate is not the slot's certificate).
var (
	attOnce sync.Once
	attDER  []byte
)

func attestCertDER() []byte {
	attOnce.Do(func() {
		k := keys.EC(256, "attestcert")
		tmpl := &x509.Certificate{
			SerialNumber: big.NewInt(43),
			Subject:      pkix.Name{CommonName: "verif slot attestation"},
			NotBefore:    time.Date(1999, 1, 1, 0, 0, 0, 0, time.UTC),
			NotAfter:     time.Date(2100, 1, 1, 0, 0, 0, 0, time.UTC),
		}
		der, err := x509.CreateCertificate(rand.Reader, tmpl, tmpl, k.Public(), k)
		if err != nil {
			panic(err)
		}
		attDER = der
	})
	return attDER
}
