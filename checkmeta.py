# Descriptive metadata merged into the evidence files by ./check.
RULES = {
    "default": "plans generated from VERIF_SEED; a run is non-trivial when it executed at least one operation beyond set-up; "
               "distinct = distinct behaviour signatures (operation kinds x fault kinds fired x outcome classes)",
    "C01": "one evaluation = one execution of a world plan (1..6 gensign runs on one forwarded agent, each plan executed twice in fresh bubbles for the freshness oracle); "
           "non-trivial = at least one run reached the handlers; distinct = distinct tuples (handler list, agent behaviour, key-directory state, namespace policy, hard-key flag, result kind, faults fired with phase, CA script) over the run history",
    "C02": "as C01, generator biased towards odd strings (JSON metacharacters, non-ASCII, spaces, IPv6) and key-identifier spellings; every signing request seen by the scripted CA is checked",
    "C03": "as C01 with more faults and longer histories; distinct = distinct run-history signatures",
    "C04": "one evaluation = one execution of gensign.Run with exactly one injected fault (or the fault-free reference); per seeded scenario ALL placements are enumerated: every agent request index x 9 reply/connection faults, every signer call x {error, panic}, every stub-handler method x panic; "
           "distinct = distinct (handler list, request kind, phase, fault, result kind) tuples plus scenario signatures",
    "C12": "one evaluation = one simulated connection served by yubiagent.ServeAgent (stream of 1..9 frames from the frame grammar, chunking, EOF / read error / write error positions); "
           "non-trivial = every run (at least one frame is sent); distinct = distinct (stack, per-frame kind/class/reply count, error, panic) signatures",
}
COMPONENTS = {
    "worldg": {"real": ["gensign.Run", "gensign/regular handler", "csr.NewReqParam", "config.NewGensignConfig", "message", "keyid", "agent/ssh AgentKey", "sshutils/key",
                        "x/crypto ssh + ssh/agent client and protocol server", "os file system (key directory, config file)", "crypto/rand entropy"],
               "stub": ["forwarded ssh-agent = reference agent model behind a scripted peer", "CA = scripted csr.Signer minting real SSH certificates", "extra handlers = stub gensign.Handler", "clock = testing/synctest bubble"]},
    "worldw": {"real": ["yubiagent.ServeAgent", "yubiagent client", "yubiagent *server (hook)", "shimagent.Server (full stack)", "x/crypto ssh/agent protocol server and client", "agent/utils PEM parsing"],
               "stub": ["byte-stream transport = scripted reader/writer or chunked in-memory duplex", "served agent = recording stub YubiAgent (stub stack)", "upstream ssh-agent = reference agent model (full stack)", "PIV tool = stub executable written by the harness"]},
}
ASSUMPTIONS = {
    "worldg": ["ssh.PublicKey.Verify, x/crypto agent wire codec and encoding/json are trusted", "entropy is real: key bytes and challenges differ between a run and its replay; oracles use roles and equality classes only",
               "key directory lives on a real file system: states are set, I/O errors are not injected", "built with go1.26.8 (testing/synctest), /repo declares go 1.23"],
    "worldw": ["x/crypto wire codec trusted for the expected-reply computation of standard requests", "the stub PIV tool is a real child process and is not schedulable"],
}
MUST_PROBE = {
    "C01": ["proof_ok", "all_rejected", "regular_success"],
    "C02": ["regular_success", "unconfigured_algo"],
    "C03": ["regular_success", "regeneration", "cert_signs", "failure_with_old_certs"],
    "C04": ["placement_fired"],
    "C12": ["clean_eof", "oversize_reached"],
}
