package worldl

import (
	"context"
	"crypto/tls"
	"crypto/x509"
	"encoding/json"
	"errors"
	"fmt"
	"io"
	"log"
	"net"
	"os"
	"path/filepath"
	"strings"
	"sync"
	"testing"
	"time"

	"github.com/rs/zerolog"
	pb "github.com/theparanoids/crypki/proto"
	"github.com/theparanoids/ysshra/config"
	"github.com/theparanoids/ysshra/crypki"
	"github.com/theparanoids/ysshra/tlsutils"
	"golang.org/x/crypto/ssh"
	"google.golang.org/grpc"
	"google.golang.org/grpc/codes"
	"google.golang.org/grpc/credentials"
	"google.golang.org/grpc/grpclog"
	"google.golang.org/grpc/peer"
	"google.golang.org/grpc/status"
	"google.golang.org/grpc/test/bufconn"
	gproto "google.golang.org/protobuf/proto"

	"verifsim/keys"
	"verifsim/sim"
)

func init() {
	// The "system" trust store of this process holds the CA that issues the other_ca impostors: code that
	// trusts anything beyond the configured CA files (e.g. merges the system pool) lets those impostors in.
	if f, err := os.CreateTemp(os.Getenv("VERIF_TMP"), "verif-system-roots-*.pem"); err == nil {
		f.Write(newCA("foreign-ca").pem())
		f.Close()
		os.Setenv("SSL_CERT_FILE", f.Name())
		os.Setenv("SSL_CERT_DIR", "/nonexistent-verif-cert-dir")
	}
	zerolog.SetGlobalLevel(zerolog.Disabled)
	log.SetOutput(io.Discard)
	grpclog.SetLoggerV2(grpclog.NewLoggerV2(io.Discard, io.Discard, io.Discard))
}

// LReply scripts the answer to one RPC attempt.
type LReply struct {
	Kind     string   `json:"kind"` // ok | rpc_error | garbage | empty | stall
	Code     int      `json:"code,omitempty"`
	NCerts   int      `json:"ncerts,omitempty"`
	Comments []string `json:"comments,omitempty"`
	Noise    bool     `json:"noise,omitempty"`   // comment lines, blank lines and CRLF line ends around the certificates
	CASigs   []string `json:"ca_sigs,omitempty"` // per certificate: CA key / signature format (see keys.CertSpec.CASig)
}

// LEndpoint is one simulated CA endpoint.
type LEndpoint struct {
	Name       string `json:"name"`        // as configured: IP literal or passthrough:///host
	Identity   string `json:"identity"`    // genuine | other_ca | sibling_ca | self_signed | expired | not_yet | wrong_name
	CA         int    `json:"ca"`          // index of the issuing configured CA (genuine and time/name impostors)
	TLS        string `json:"tls"`         // 1.1 | 1.2 | 1.3 : highest version the server offers (1.1 = only old versions)
	ClientAuth string `json:"client_auth"` // require | request | none
	Dial       string `json:"dial"`        // ok | refuse | stall | cut | slow
	CutAfter   int    `json:"cut_after,omitempty"`
	// Heal: the dial fault lasts only for the Sign calls before this one (0: for the whole run)
	Heal   int      `json:"heal,omitempty"`
	Script []LReply `json:"script"`
}

// LCfg is the signer configuration.
type LCfg struct {
	NCAs      int     `json:"ncas"`   // configured CA certificates
	Bundle    [][]int `json:"bundle"` // CA indices per bundle file
	Retries   int     `json:"retries"`
	PerTryMs  int     `json:"per_try_ms"`
	NilList   bool    `json:"nil_list,omitempty"` // "crypki_endpoints" absent instead of an empty list
	ParentSec int     `json:"parent_sec"`
	// ClientChain: the client certificate file holds leaf + intermediate; servers trust the root only
	ClientChain bool `json:"client_chain,omitempty"`
	// Sibling: CA indices (all >= NCAs) of the bundle of another TLS client configuration built in the same
	// process (as gensign does for its telemetry exporter); SiblingFirst: built before the signer
	Sibling      []int `json:"sibling,omitempty"`
	SiblingFirst bool  `json:"sibling_first,omitempty"`
	// SiblingDials: before the first Sign that other TLS client completes a TLS handshake of its own with every
	// endpoint whose certificate its bundle accepts (a process talks to more than one service)
	SiblingDials bool `json:"sibling_dials,omitempty"`
	// ClientExpires: the configured client certificate is valid when the signer is built and lapses on
	// 2030-01-01; with a long pause between two Sign calls the second one happens after that instant
	ClientExpires bool `json:"client_expires,omitempty"`
}

// LBackoff is one direct evaluation of the retry back-off.
type LBackoff struct {
	BaseMs  int64   `json:"base_ms"`
	MaxMs   int64   `json:"max_ms"`
	Mult    float64 `json:"mult"`
	Jitter  float64 `json:"jitter"`
	Attempt uint    `json:"attempt"`
	AtSec   int64   `json:"at_sec"` // simulated instant (the implementation seeds its jitter from the clock)
}

// LPlan is one CA link world.
type LPlan struct {
	Cfg       LCfg        `json:"cfg"`
	Endpoints []LEndpoint `json:"endpoints"`
	Backoffs  []LBackoff  `json:"backoffs,omitempty"`
	Calls     int         `json:"calls,omitempty"`     // Sign calls on the same Signer value (0 means 1)
	ReqShape  string      `json:"req_shape,omitempty"` // unusual but legal values in the signing request (see sampleRequest)
	GapSec    int         `json:"gap_sec,omitempty"`   // simulated pause between them
}

const port = 4443

// clientLapse is when an expiring client certificate (Cfg.ClientExpires) lapses.
var clientLapse = time.Date(2030, 1, 1, 0, 0, 0, 0, time.UTC)

func hostOf(name string) string { return strings.TrimPrefix(name, "passthrough:///") }

// ---- signer cache (NewSigner starts a never-stopped reloader goroutine) -----

type signerEnt struct {
	signer    *crypki.Signer
	err       error
	clientDER [][]byte // the configured client certificate chain, leaf first
	sibling   *tls.Config
}

var (
	signerMu    sync.Mutex
	signerCache = map[string]*signerEnt{}
)

func tmpRoot() string {
	if d := os.Getenv("VERIF_TMP"); d != "" {
		return d
	}
	return os.TempDir()
}

// getSigner builds (outside any bubble) the real signer for a configuration.
func getSigner(p *LPlan) *signerEnt {
	names := make([]string, len(p.Endpoints))
	for i, e := range p.Endpoints {
		names[i] = e.Name
	}
	keyb, _ := json.Marshal(struct {
		C LCfg
		N []string
	}{p.Cfg, names})
	key := string(keyb)
	signerMu.Lock()
	defer signerMu.Unlock()
	if e, ok := signerCache[key]; ok {
		return e
	}
	ent := &signerEnt{}
	signerCache[key] = ent
	dir, err := os.MkdirTemp(tmpRoot(), "l-")
	if err != nil {
		ent.err = err
		return ent
	}
	clientCA := newCA("client-ca")
	var cl tls.Certificate
	if p.Cfg.ClientChain {
		inter := newIntermediate(clientCA, "client-intermediate")
		cl = issue(inter, "ra-client-chained", []string{"ra.sim"}, longBefore, longAfter, true)
		cl.Certificate = append(cl.Certificate, inter.der)
	} else if p.Cfg.ClientExpires {
		cl = issue(clientCA, "ra-client-expiring", []string{"ra.sim"}, longBefore, clientLapse, true)
	} else {
		cl = issue(clientCA, "ra-client", []string{"ra.sim"}, longBefore, longAfter, true)
	}
	ent.clientDER = cl.Certificate
	os.WriteFile(filepath.Join(dir, "client.crt"), certPEM(cl), 0o600)
	os.WriteFile(filepath.Join(dir, "client.key"), keyPEM(cl), 0o600)
	sibling := func() {
		if len(p.Cfg.Sibling) == 0 {
			return
		}
		var b []byte
		for _, ci := range p.Cfg.Sibling {
			b = append(b, newCA(fmt.Sprintf("server-ca-%d", ci)).pem()...)
		}
		fn := filepath.Join(dir, "sibling-ca.pem")
		os.WriteFile(fn, b, 0o600)
		// another TLS client of the same process with its own CA bundle; it is never used for signing
		sc, err := tlsutils.TLSClientConfiguration(filepath.Join(dir, "client.crt"), filepath.Join(dir, "client.key"), []string{fn})
		if err != nil && ent.err == nil {
			ent.err = fmt.Errorf("sibling TLS client configuration: %v", err)
		}
		ent.sibling = sc
	}
	if p.Cfg.SiblingFirst {
		sibling()
	}
	var files []string
	for i, f := range p.Cfg.Bundle {
		var b []byte
		for _, ci := range f {
			b = append(b, newCA(fmt.Sprintf("server-ca-%d", ci)).pem()...)
		}
		fn := filepath.Join(dir, fmt.Sprintf("ca%d.pem", i))
		os.WriteFile(fn, b, 0o600)
		files = append(files, fn)
	}
	sc := map[string]interface{}{
		"tls_client_key_file": filepath.Join(dir, "client.key"), "tls_client_cert_file": filepath.Join(dir, "client.crt"),
		"tls_ca_cert_files": files, "crypki_port": port, "retries": p.Cfg.Retries,
		"per_try_timeout": fmt.Sprintf("%dms", p.Cfg.PerTryMs),
	}
	if !(len(names) == 0 && p.Cfg.NilList) {
		eps := make([]interface{}, len(names))
		for i, n := range names {
			eps[i] = n
		}
		sc["crypki_endpoints"] = eps
	}
	// through JSON, as the configuration file would
	raw, _ := json.Marshal(map[string]interface{}{"signer": sc})
	var gc config.GensignConfig
	if err := json.Unmarshal(raw, &gc); err != nil {
		ent.err = err
		return ent
	}
	sg, err := crypki.NewSignerWithGensignConf(gc)
	if !p.Cfg.SiblingFirst {
		sibling()
	}
	if ent.err == nil {
		ent.signer, ent.err = sg, err
	}
	return ent
}

// ---- simulated network -----------------------------------------------------

type event struct {
	kind    string // dial | rpc | rpc_done
	ep      int
	at      time.Duration
	attempt int
	detail  string
}

type epState struct {
	idx      int
	spec     *LEndpoint
	ln       *bufconn.Listener
	srv      *grpc.Server
	attempts int
	dials    int
	lastFail time.Duration
	failed   bool
}

type network struct {
	mu     sync.Mutex
	omu    sync.Mutex
	eps    map[string]*epState // host:port -> endpoint
	events []event
	o      *sim.Outcome
	req    *pb.SSHCertificateSigningRequest
	client [][]byte
	viol   []string
	call   int // index of the Sign call in progress
	// firstCert is the TLS certificate of endpoint 0 (for impostors that present the same one)
	firstCert *tls.Certificate
}

// dialMode is the endpoint's dial behaviour during the given Sign call.
func (e *LEndpoint) dialMode(call int) string {
	if e.Heal > 0 && call >= e.Heal {
		return "ok"
	}
	return e.Dial
}

func (n *network) fault(k string) {
	n.omu.Lock()
	n.o.Fault(k)
	n.omu.Unlock()
}

func (n *network) probe(k string) {
	n.omu.Lock()
	n.o.Probe(k)
	n.omu.Unlock()
}

func (n *network) log(e event) {
	e.at = time.Since(sim.Epoch)
	n.events = append(n.events, e)
}

type cutConn struct {
	net.Conn
	left int
	n    *network
}

func (c *cutConn) Write(p []byte) (int, error) {
	if c.left <= 0 {
		c.Conn.Close()
		return 0, errors.New("simnet: connection cut")
	}
	if len(p) > c.left {
		p = p[:c.left]
	}
	c.left -= len(p)
	nw, err := c.Conn.Write(p)
	if c.left <= 0 {
		c.Conn.Close()
		if err == nil {
			err = errors.New("simnet: connection cut")
		}
	}
	return nw, err
}

func (n *network) dial(ctx context.Context, addr string) (net.Conn, error) {
	n.mu.Lock()
	ep := n.eps[addr]
	if ep == nil {
		n.mu.Unlock()
		return nil, fmt.Errorf("simnet: no route to %s", addr)
	}
	ep.dials++
	first := ep.dials == 1
	mode := ep.spec.dialMode(n.call)
	n.log(event{kind: "dial", ep: ep.idx, detail: mode})
	n.mu.Unlock()
	switch mode {
	case "refuse":
		n.fault("dial_refused")
		return nil, errors.New("simnet: connection refused")
	case "stall":
		n.fault("dial_stalled")
		<-ctx.Done()
		return nil, ctx.Err()
	case "slow":
		n.fault("latency")
		select {
		case <-time.After(700 * time.Millisecond):
		case <-ctx.Done():
			return nil, ctx.Err()
		}
	}
	c, err := ep.ln.DialContext(ctx)
	if err != nil {
		return nil, err
	}
	if mode == "cut" && first {
		n.fault("connection_cut")
		return &cutConn{Conn: c, left: ep.spec.CutAfter, n: n}, nil
	}
	return c, nil
}

// ---- endpoint servers --------------------------------------------------------

type signingServer struct {
	pb.UnimplementedSigningServer
	n  *network
	ep *epState
}

func certLine(ep, attempt, i int, comment, casig string) string {
	c := keys.Cert(keys.CertSpec{KeyKind: keys.KindEd, KeyLabel: "l-user", CALabel: fmt.Sprintf("l-ca-%d", ep), CASig: casig, KeyID: fmt.Sprintf("ep%d-attempt%d-cert%d", ep, attempt, i),
		Serial: uint64(ep*1000 + attempt*10 + i), Principals: []string{"user"}, ValidBefore: ssh.CertTimeInfinity})
	line := strings.TrimRight(string(ssh.MarshalAuthorizedKey(c)), "\n")
	if comment != "" {
		line += " " + comment
	}
	return line + "\n"
}

func (s *signingServer) PostUserSSHCertificate(ctx context.Context, req *pb.SSHCertificateSigningRequest) (*pb.SSHKey, error) {
	n, ep := s.n, s.ep
	n.mu.Lock()
	attempt := ep.attempts
	ep.attempts++
	var rep LReply
	if len(ep.spec.Script) > 0 {
		rep = ep.spec.Script[min(attempt, len(ep.spec.Script)-1)]
	} else {
		rep = LReply{Kind: "ok", NCerts: 1}
	}
	ver, peerDER := uint16(0), [][]byte(nil)
	if p, ok := peer.FromContext(ctx); ok {
		if ti, ok := p.AuthInfo.(credentials.TLSInfo); ok {
			ver = ti.State.Version
			for _, pc := range ti.State.PeerCertificates {
				peerDER = append(peerDER, pc.Raw)
			}
		}
	}
	n.log(event{kind: "rpc", ep: ep.idx, attempt: attempt, detail: rep.Kind})
	if ep.failed {
		gap := time.Since(sim.Epoch) - ep.lastFail
		if gap < 0 || gap > 18*time.Second+time.Millisecond {
			n.viol = append(n.viol, fmt.Sprintf("C17.retry_gap|retry_gap|endpoint %d: attempt %d started %v after the previous attempt failed, outside [0, 15s x 1.2]", ep.idx, attempt, gap))
		}
		n.probe("retry_backoff_seen")
	}
	if !gproto.Equal(req, n.req) {
		n.viol = append(n.viol, fmt.Sprintf("C17.request|request_modified|endpoint %d received a request that differs from the one passed to Sign", ep.idx))
	}
	if ep.spec.Identity != "genuine" || ep.spec.TLS == "1.1" {
		n.viol = append(n.viol, fmt.Sprintf("C18.impostor|impostor_received_csr:%s/%s|the CSR reached endpoint %d whose TLS identity is %s (tls max %s)", ep.spec.Identity, ep.spec.TLS, ep.idx, ep.spec.Identity, ep.spec.TLS))
	}
	if ver < tls.VersionTLS12 {
		n.viol = append(n.viol, fmt.Sprintf("C18.version|old_tls|endpoint %d was contacted over TLS version %#x", ep.idx, ver))
	}
	if ep.spec.ClientAuth != "none" {
		same := len(peerDER) == len(n.client)
		for i := 0; same && i < len(peerDER); i++ {
			same = string(peerDER[i]) == string(n.client[i])
		}
		if !same {
			n.viol = append(n.viol, fmt.Sprintf("C18.client_cert|client_cert|endpoint %d asked for a client certificate and did not observe the configured one (got %d certificates, configured %d)", ep.idx, len(peerDER), len(n.client)))
		} else {
			n.probe("client_cert_presented")
			if len(peerDER) > 1 {
				n.probe("client_chain_presented")
			}
		}
	}
	n.mu.Unlock()
	fail := func() {
		n.mu.Lock()
		ep.failed = true
		ep.lastFail = time.Since(sim.Epoch)
		n.mu.Unlock()
	}
	switch rep.Kind {
	case "rpc_error":
		n.fault(fmt.Sprintf("rpc_error/%s", codes.Code(rep.Code)))
		fail()
		return nil, status.Error(codes.Code(rep.Code), "scripted failure")
	case "stall":
		n.fault("handler_stalled")
		<-ctx.Done()
		fail()
		return nil, status.Error(codes.DeadlineExceeded, "stalled")
	case "garbage":
		n.fault("unparsable_key_material")
		fail()
		return &pb.SSHKey{Key: "this is not an authorized key line\n\x00\x01"}, nil
	case "empty":
		n.fault("empty_key_material")
		fail()
		return &pb.SSHKey{Key: ""}, nil
	}
	var sb strings.Builder
	if rep.Noise {
		sb.WriteString("# certificates issued by the CA\r\n\r\n")
	}
	for i := 0; i < rep.NCerts; i++ {
		cm := ""
		if i < len(rep.Comments) {
			cm = rep.Comments[i]
		}
		casig := ""
		if i < len(rep.CASigs) {
			casig = rep.CASigs[i]
		}
		line := certLine(ep.idx, attempt, i, cm, casig)
		if rep.Noise {
			line = strings.TrimRight(line, "\n") + "\r\n\r\n# next\r\n"
		}
		sb.WriteString(line)
	}
	if rep.NCerts == 0 {
		fail()
	}
	return &pb.SSHKey{Key: sb.String()}, nil
}

func tlsVersions(max string) (uint16, uint16) {
	switch max {
	case "1.1":
		return tls.VersionTLS10, tls.VersionTLS11
	case "1.2":
		return tls.VersionTLS10, tls.VersionTLS12
	}
	return tls.VersionTLS10, tls.VersionTLS13
}

func (n *network) startEndpoint(i int, e *LEndpoint, clientCA *ca, clientChain bool, firstHost string, longLived bool) *epState {
	host := hostOf(e.Name)
	now := time.Now()
	var cert tls.Certificate
	issuer := newCA(fmt.Sprintf("server-ca-%d", e.CA))
	label := fmt.Sprintf("srv-%d-%s", i, e.Identity)
	switch e.Identity {
	case "genuine":
		cert = issue(issuer, label, []string{host}, now.Add(-24*time.Hour), now.Add(365*24*time.Hour), false)
		if longLived {
			cert = issue(issuer, label, []string{host}, longBefore, longAfter, false)
		}
	case "other_ca":
		cert = issue(newCA("foreign-ca"), label, []string{host}, now.Add(-24*time.Hour), now.Add(365*24*time.Hour), false)
	case "cert_of_first":
		// presents the very certificate (and key) of the first endpoint: right for that name, wrong for this one
		if first := n.firstCert; first != nil {
			cert = *first
		} else {
			cert = issue(issuer, label, []string{firstHost}, now.Add(-24*time.Hour), now.Add(365*24*time.Hour), false)
		}
	case "named_as_first":
		// a CA-issued certificate that names the FIRST endpoint of the list, presented by a later endpoint
		cert = issue(issuer, label, []string{firstHost}, now.Add(-24*time.Hour), now.Add(365*24*time.Hour), false)
	case "client_ca":
		// issued by the CA that issued the RA's own client certificate: a CA of the deployment, but not one of
		// the configured server CA certificates
		iss := clientCA
		if clientChain {
			iss = newIntermediate(clientCA, "client-intermediate")
		}
		cert = issue(iss, label, []string{host}, now.Add(-24*time.Hour), now.Add(365*24*time.Hour), false)
	case "sibling_ca":
		// issued by a CA that another TLS client of this process is configured with, not the signer
		cert = issue(issuer, label, []string{host}, now.Add(-24*time.Hour), now.Add(365*24*time.Hour), false)
	case "self_signed":
		cert = issue(nil, label, []string{host}, now.Add(-24*time.Hour), now.Add(365*24*time.Hour), false)
	case "expired":
		cert = issue(issuer, label, []string{host}, now.Add(-48*time.Hour), now.Add(-1*time.Hour), false)
	case "just_expired":
		// lapsed a few seconds ago (any tolerance in the client's notion of time lets it through)
		cert = issue(issuer, label, []string{host}, now.Add(-48*time.Hour), now.Add(-3*time.Second), false)
	case "not_yet":
		cert = issue(issuer, label, []string{host}, now.Add(24*time.Hour), now.Add(48*time.Hour), false)
	case "wrong_name":
		cert = issue(issuer, label, []string{"other.sim", "10.9.9.9"}, now.Add(-24*time.Hour), now.Add(365*24*time.Hour), false)
	}
	minV, maxV := tlsVersions(e.TLS)
	cfg := &tls.Config{Certificates: []tls.Certificate{cert}, MinVersion: minV, MaxVersion: maxV, NextProtos: []string{"h2"}}
	switch e.ClientAuth {
	case "require":
		cfg.ClientAuth = tls.RequireAndVerifyClientCert
		pool := x509.NewCertPool()
		pool.AddCert(clientCA.cert)
		cfg.ClientCAs = pool
	case "request":
		cfg.ClientAuth = tls.RequestClientCert
	case "request_hint_other":
		// asks for a certificate without requiring or verifying one, and advertises only an unrelated CA as
		// acceptable issuer: the RA must still present its configured certificate
		cfg.ClientAuth = tls.RequestClientCert
		pool := x509.NewCertPool()
		pool.AddCert(newCA("unrelated-client-ca").cert)
		cfg.ClientCAs = pool
	}
	if i == 0 {
		c0 := cert
		n.firstCert = &c0
	}
	ep := &epState{idx: i, spec: e, ln: bufconn.Listen(256 * 1024)}
	ep.srv = grpc.NewServer(grpc.Creds(credentials.NewTLS(cfg)))
	pb.RegisterSigningServer(ep.srv, &signingServer{n: n, ep: ep})
	go ep.srv.Serve(ep.ln)
	n.eps[fmt.Sprintf("%s:%d", host, port)] = ep
	return ep
}

// ---- execution ---------------------------------------------------------------

// sampleRequest builds the signing request of a plan; shape selects unusual but legal field values (the request
// must reach the CA exactly as given).
func sampleRequest(shape string) *pb.SSHCertificateSigningRequest {
	req := &pb.SSHCertificateSigningRequest{
		KeyMeta: &pb.KeyMeta{Identifier: "ssh-user-key"}, Principals: []string{"alice"}, Validity: 43200,
		KeyId:      `{"prins":["alice"],"transID":"0123456789","ver":1}`,
		Extensions: map[string]string{"permit-pty": "", "permit-agent-forwarding": ""},
		PublicKey:  string(ssh.MarshalAuthorizedKey(keys.Pub(keys.KindEd, "l-user"))),
	}
	switch shape {
	case "dup_principals":
		req.Principals = []string{"alice", "bob", "alice"}
	case "spaced_principals":
		req.Principals = []string{" alice", "bob ", "car ol"}
	case "empty_principal":
		req.Principals = []string{"alice", ""}
	case "no_principals":
		req.Principals = nil
	case "unsorted_principals":
		req.Principals = []string{"zoe", "alice", "Mallory", "bob"}
	case "odd_fields":
		req.KeyId = " {\"prins\":[\"alice\"]}\n"
		req.Validity = 0
		req.Extensions = map[string]string{}
		req.KeyMeta = &pb.KeyMeta{Identifier: " key id with spaces "}
		req.PublicKey = strings.TrimRight(req.PublicKey, "\n") + " a comment\n"
	case "critical_options":
		req.CriticalOptions = map[string]string{"force-command": "/bin/true", "source-address": "10.0.0.0/8, 192.168.0.1"}
	}
	return req
}

func execL(t *testing.T, raw json.RawMessage) *sim.Outcome {
	o := &sim.Outcome{}
	var p LPlan
	if err := json.Unmarshal(raw, &p); err != nil {
		o.Fail("harness.plan", "unmarshal", 0, "%v", err)
		return o
	}
	ent := getSigner(&p)
	var sig []string
	if ent.err != nil || ent.signer == nil {
		// the configuration was refused at construction: for an absent endpoint list that is the documented error
		if len(p.Endpoints) == 0 {
			o.Probe("no_endpoints_refused_at_construction")
			o.Signature = "construct_refused"
			o.Logf("NewSigner refused the configuration: %v", ent.err)
		} else {
			o.Fail("harness.signer", "new_signer", 0, "NewSigner failed: %v", ent.err)
		}
		checkBackoffs(t, o, &p)
		return o
	}
	n := &network{eps: map[string]*epState{}, o: o, req: sampleRequest(p.ReqShape), client: ent.clientDER}
	type callRec struct {
		certs      []ssh.PublicKey
		comments   []string
		serr       error
		panicked   any
		dur        time.Duration
		evFrom     int
		evTo       int
		base       []int // attempts per endpoint before the call
		dialsStart []int
		start      time.Time
	}
	var calls []callRec
	allReturned := false
	ncalls := max(1, p.Calls)
	fail := sim.InBubble(t, func() {
		clientCA := newCA("client-ca")
		var eps []*epState
		for i := range p.Endpoints {
			eps = append(eps, n.startEndpoint(i, &p.Endpoints[i], clientCA, p.Cfg.ClientChain, hostOf(p.Endpoints[0].Name), p.Cfg.ClientExpires))
		}
		if p.Cfg.SiblingDials && ent.sibling != nil {
			for i, e := range p.Endpoints {
				if e.Identity != "sibling_ca" || e.Dial != "ok" {
					continue
				}
				func() {
					ctx, cancel := context.WithTimeout(context.Background(), 5*time.Second)
					defer cancel()
					raw, err := eps[i].ln.DialContext(ctx)
					if err != nil {
						return
					}
					defer raw.Close()
					cfg := ent.sibling.Clone()
					cfg.ServerName = hostOf(e.Name)
					cfg.NextProtos = []string{"h2"}
					tc := tls.Client(raw, cfg)
					tc.SetDeadline(time.Now().Add(5 * time.Second))
					if tc.HandshakeContext(ctx) == nil {
						var buf [64]byte
						tc.Read(buf[:]) // post-handshake messages (session tickets) are processed while reading
						o.Probe("sibling_client_talked_to_its_server")
					}
				}()
			}
		}
		signer := ent.signer.VerifWithDialOptions(grpc.WithContextDialer(n.dial))
		for ci := 0; ci < ncalls; ci++ {
			if ci > 0 {
				time.Sleep(time.Duration(p.GapSec) * time.Second) // the same Signer value is used again later
			}
			var c callRec
			n.mu.Lock()
			n.call = ci
			c.evFrom = len(n.events)
			for _, ep := range eps {
				c.base = append(c.base, ep.attempts)
				c.dialsStart = append(c.dialsStart, ep.dials)
				ep.failed = false
			}
			n.mu.Unlock()
			ctx, cancel := context.WithTimeout(context.Background(), time.Duration(p.Cfg.ParentSec)*time.Second)
			signStart := time.Now()
			c.start = signStart
			func() {
				defer func() {
					if r := recover(); r != nil {
						c.panicked = r
					}
				}()
				c.certs, c.comments, c.serr = signer.Sign(ctx, gproto.Clone(n.req).(*pb.SSHCertificateSigningRequest))
			}()
			c.dur = time.Since(signStart)
			cancel()
			n.mu.Lock()
			c.evTo = len(n.events)
			n.mu.Unlock()
			calls = append(calls, c)
		}
		o.SimTimeS += sim.SimNow()
		allReturned = true
		// a signer that keeps resources between calls says so with a Close method
		switch c := any(signer).(type) {
		case interface{ Close() error }:
			c.Close()
		case interface{ Close() }:
			c.Close()
		}
		for _, ep := range eps {
			ep.srv.Stop()
			ep.ln.Close()
		}
	})
	if fail != "" && allReturned && strings.Contains(fail, "main bubble goroutine has exited") {
		// every Sign call returned; goroutines the signer left behind (kept connections) are no stall
		o.Probe("goroutines_left_after_last_sign")
		fail = ""
	}
	if fail != "" {
		failBubble(o, fail)
		return o
	}
	n.mu.Lock()
	defer n.mu.Unlock()
	for _, v := range n.viol {
		parts := strings.SplitN(v, "|", 3)
		o.Fail(parts[0], parts[1], 0, "%s", parts[2])
	}
	okReply := false
	for ci, c := range calls {
		certs, comments, serr, panicked, signDur := c.certs, c.comments, c.serr, c.panicked, c.dur
		events := n.events[c.evFrom:c.evTo]
		sig = append(sig, fmt.Sprintf("call%d", ci))
		if panicked != nil {
			o.Fail("C17.no_panic", "sign_panic", 0, "Sign panicked: %v", panicked)
		}
		// ---- bounded progress: every endpoint costs at most `retries` attempts of (per-try timeout + maximal
		// back-off), plus the transport's connect timeout when it cannot be reached ----
		bound := 5 * time.Second
		for range p.Endpoints {
			bound += time.Duration(max(p.Cfg.Retries, 1))*(time.Duration(p.Cfg.PerTryMs)*time.Millisecond+18*time.Second) + 25*time.Second
		}
		if limit := time.Duration(p.Cfg.ParentSec) * time.Second; bound > limit {
			bound = limit + time.Second
		}
		if signDur > bound {
			o.Fail("C17.bounded", "sign_too_slow", 0, "Sign took %v of simulated time for %d endpoints (retries %d, per-try %d ms): more than the bound %v", signDur, len(p.Endpoints), p.Cfg.Retries, p.Cfg.PerTryMs, bound)
		} else {
			o.Probe("sign_within_time_bound")
		}
		// ---- order of contact ----
		lastEp := -1
		for _, e := range events {
			if e.ep < lastEp {
				o.Fail("C17.order", "out_of_order", 0, "endpoint %d was contacted (%s) after endpoint %d", e.ep, e.kind, lastEp)
			}
			if e.ep > lastEp {
				lastEp = e.ep
			}
			if e.kind == "rpc" {
				// canonical log: gRPC's own reconnect back-off draws its jitter from an unseedable source, so the
				// number and the instants of dial events are not a function of the plan; RPC attempts are
				o.Logf("rpc ep=%d attempt=%d %s", e.ep, e.attempt, e.detail)
			}
		}
		perEp := map[int]int{}
		for _, e := range events {
			if e.kind == "rpc" {
				perEp[e.ep]++
			}
		}
		for idx, cnt := range perEp {
			if cnt > p.Cfg.Retries && p.Cfg.Retries > 0 {
				// (how often one endpoint is asked is not the property's subject - order, the unmodified request, the
				// first successful answer and the retry delays are: an implementation that asks an endpoint again over
				// a fresh connection after a pooled one failed keeps it. Counted, not judged.)
				_ = idx
				o.Probe("endpoint_asked_more_often_than_the_configured_retries")
				continue
			}
		}
		// ---- classification of endpoints by the plan ----
		class := make([]string, len(p.Endpoints)) // good | maybe | bad
		for i, e := range p.Endpoints {
			authentic := e.Identity == "genuine" && e.TLS != "1.1"
			if e.Heal > 0 && ci >= e.Heal && e.Dial != "ok" {
				o.Probe("endpoint_reachable_again_in_later_call")
			}
			if e.Identity == "sibling_ca" && ci == 0 {
				o.Probe("impostor_from_ca_of_another_tls_client")
			}
			first := LReply{Kind: "ok", NCerts: 1}
			laterOK := false
			if len(e.Script) > 0 {
				from := min(c.base[i], len(e.Script)-1)
				first = e.Script[from]
				for _, r := range e.Script[from:] {
					if r.Kind == "ok" && r.NCerts > 0 {
						laterOK = true
					}
				}
			}
			// a server that verifies client certificates refuses the RA's once it has lapsed
			if p.Cfg.ClientExpires && ci > 0 && i == 0 && c.start.After(clientLapse) {
				o.Probe("sign_after_client_certificate_lapsed")
			}
			lapsed := p.Cfg.ClientExpires && !c.start.Add(-time.Hour).Before(clientLapse) && e.ClientAuth == "require"
			maybeLapsed := p.Cfg.ClientExpires && !c.start.Add(24*time.Hour).Before(clientLapse) && e.ClientAuth == "require"
			switch {
			case !authentic || e.dialMode(ci) == "refuse" || e.dialMode(ci) == "stall" || lapsed:
				class[i] = "bad"
			case maybeLapsed:
				class[i] = "maybe"
			case (e.dialMode(ci) == "cut" && c.dialsStart[i] == 0) || e.dialMode(ci) == "slow":
				// a cut connection may or may not be retried in time; latency may exceed the per-try timeout
				class[i] = "maybe"
			case first.Kind == "ok" && first.NCerts > 0:
				class[i] = "good"
			case laterOK:
				class[i] = "maybe"
			default:
				class[i] = "bad"
			}
		}
		// ---- result ----
		okReply = serr == nil
		sig = append(sig, fmt.Sprintf("eps=%d", len(p.Endpoints)))
		for i, e := range p.Endpoints {
			k := "-"
			if len(e.Script) > 0 {
				k = e.Script[0].Kind
			}
			sig = append(sig, fmt.Sprintf("%s/%s/%s/%s/%s/%s", class[i], e.Identity, e.TLS, e.ClientAuth, e.dialMode(ci), k))
		}
		if okReply {
			if len(certs) == 0 {
				o.Fail("C17.empty_success", fmt.Sprintf("empty_success:eps=%d", len(p.Endpoints)), 0, "Sign returned no error and no certificate (endpoints configured: %d)", len(p.Endpoints))
			} else {
				// which endpoint's reply is it?
				from, attempt := -1, -1
				c0, _ := certs[0].(*ssh.Certificate)
				if c0 != nil {
					fmt.Sscanf(c0.KeyId, "ep%d-attempt%d-", &from, &attempt)
				}
				if from < 0 || from >= len(p.Endpoints) {
					o.Fail("C17.reply", "foreign_reply", 0, "Sign returned a certificate no endpoint issued")
				} else {
					sig = append(sig, fmt.Sprintf("from=%d", from))
					e := p.Endpoints[from]
					if e.Identity != "genuine" || e.TLS == "1.1" {
						o.Fail("C18.impostor", "impostor_reply_accepted:"+e.Identity, 0, "Sign returned the reply of endpoint %d whose TLS identity is %s", from, e.Identity)
					}
					rep := LReply{Kind: "ok", NCerts: 1}
					if len(e.Script) > 0 {
						rep = e.Script[min(attempt, len(e.Script)-1)]
					}
					if len(certs) != rep.NCerts {
						o.Fail("C17.reply", "cert_count", 0, "Sign returned %d certificates, endpoint %d sent %d", len(certs), from, rep.NCerts)
					}
					if len(comments) != len(certs) {
						o.Fail("C17.reply", "comment_count", 0, "Sign returned %d comments for %d certificates", len(comments), len(certs))
					}
					for i, c := range certs {
						cc, _ := c.(*ssh.Certificate)
						want := fmt.Sprintf("ep%d-attempt%d-cert%d", from, attempt, i)
						if cc == nil || cc.KeyId != want {
							o.Fail("C17.reply", "cert_order", 0, "certificate %d of the result is not certificate %d of the reply of endpoint %d", i, i, from)
						}
						wc := ""
						if i < len(rep.Comments) {
							wc = rep.Comments[i]
						}
						if i < len(comments) && comments[i] != wc {
							o.Fail("C17.reply", "comment_value", 0, "comment %d is %q, the CA sent %q", i, comments[i], wc)
						}
					}
					for j := 0; j < from; j++ {
						if class[j] == "good" {
							o.Fail("C17.skipped", "skipped_good", 0, "Sign used endpoint %d although endpoint %d answers successfully", from, j)
						}
					}
					for _, ev := range events {
						if ev.ep > from {
							o.Fail("C17.order", "contact_after_success", 0, "endpoint %d was contacted although endpoint %d had answered successfully", ev.ep, from)
						}
					}
					o.Probe("signed")
					if from > 0 {
						o.Probe("failover_used")
						for j := 0; j < from; j++ {
							if p.Endpoints[j].Identity != "genuine" || p.Endpoints[j].TLS == "1.1" {
								o.Probe("impostor_before_genuine")
							}
						}
					}
				}
			}
		} else {
			o.Probe("sign_error")
			// completeness: a clearly good endpoint preceded only by clearly failing ones must have been used
			if p.Cfg.ParentSec >= 600 {
				for i := range p.Endpoints {
					if class[i] == "maybe" {
						break
					}
					if class[i] == "good" {
						o.Fail("C17.completeness", "good_endpoint_unused:"+fmt.Sprint(i), 0, "Sign failed (%v) although endpoint %d (after %d failing ones) answers successfully", trim(serr), i, i)
						break
					}
				}
			}
			if len(certs) != 0 {
				o.Fail("C17.reply", "certs_with_error", 0, "Sign returned an error together with %d certificates", len(certs))
			}
		}
		allBad := true
		for _, c := range class {
			if c != "bad" {
				allBad = false
			}
		}
		if allBad && okReply && len(certs) > 0 {
			o.Fail("C17.exhaustion", "success_without_endpoint", 0, "every endpoint fails, yet Sign succeeded")
		}
		if allBad {
			o.Probe("all_endpoints_fail")
		}
		sig = append(sig, fmt.Sprintf("ok=%v", okReply))
		o.Logf("call %d result ok=%v certs=%d comments=%d", ci, okReply, len(certs), len(comments))
		if ci > 0 {
			o.Probe("repeated_sign_on_one_signer")
		}
	}
	checkBackoffs(t, o, &p)
	o.Signature = strings.Join(sig, ",")
	return o
}

func trim(err error) string {
	s := err.Error()
	if len(s) > 200 {
		s = s[:200]
	}
	return s
}

// checkBackoffs evaluates the back-off bounds directly, at planned simulated instants.
func checkBackoffs(t *testing.T, o *sim.Outcome, p *LPlan) {
	if len(p.Backoffs) == 0 {
		return
	}
	sim.InBubble(t, func() {
		for i, b := range p.Backoffs {
			if d := time.Until(sim.Epoch.Add(time.Duration(b.AtSec) * time.Second)); d > 0 {
				time.Sleep(d)
			}
			base, max := time.Duration(b.BaseMs)*time.Millisecond, time.Duration(b.MaxMs)*time.Millisecond
			var got time.Duration
			var panicked any
			func() {
				defer func() { panicked = recover() }()
				got = crypki.VerifBackoff(base, max, b.Mult, b.Jitter, b.Attempt)
			}()
			if panicked != nil {
				o.Fail("C17.backoff", "backoff_panic", i, "Backoff(%d) with base=%v max=%v mult=%v jitter=%v panicked: %v", b.Attempt, base, max, b.Mult, b.Jitter, panicked)
				continue
			}
			upper := time.Duration(float64(max)*(1+b.Jitter)) + time.Microsecond
			if got < 0 || got > upper {
				cls := "above_max"
				if got < 0 {
					cls = "negative"
				}
				o.Fail("C17.backoff", "backoff_"+cls, i, "Backoff(%d) with base=%v max=%v multiplier=%v jitter=%v = %v, outside [0, %v]", b.Attempt, base, max, b.Mult, b.Jitter, got, upper)
			} else {
				o.Probe("backoff_in_bounds")
			}
		}
	})
}

// failBubble classifies the failure of a bubble: a deadlock (every goroutine of the simulated world blocked
// for ever) means an operation of the code under test never completed.
func failBubble(o *sim.Outcome, fail string) {
	if strings.Contains(fail, "deadlock") {
		o.Fail("any.stalled", "stalled", 0, "the simulated world came to a standstill: an operation never completed (%s)", fail)
		return
	}
	o.Fail("harness.bubble", "bubble", 0, "%s", fail)
}
