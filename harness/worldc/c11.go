// Package worldc is the concurrent world: several client tasks operating on one
// shared shim agent (C11) and waiters / requesters on one agent server (C20),
// under the seeded token scheduler, built with -race.
package worldc

import (
	"bytes"
	"encoding/binary"
	"encoding/hex"
	"encoding/json"
	"fmt"
	"io"
	"log"
	"os"
	"runtime/debug"
	"sort"
	"strings"
	"testing"
	"time"

	"github.com/anishathalye/porcupine"
	"github.com/rs/zerolog"
	"github.com/theparanoids/ysshra/agent/shimagent"
	"github.com/theparanoids/ysshra/agent/yubiagent"
	"golang.org/x/crypto/ssh"
	"golang.org/x/crypto/ssh/agent"

	"verifsim/refagent"
	"verifsim/sched"
	"verifsim/schedconn"
	"verifsim/shimmodel"
	"verifsim/sim"
	"verifsim/simsync"
	"verifsim/simtime"
	"verifsim/worlds"
)

func init() {
	zerolog.SetGlobalLevel(zerolog.Disabled)
	log.SetOutput(io.Discard)
}

// COp is one client operation.
type COp struct {
	Op   string `json:"op"`
	Role string `json:"role,omitempty"`
	Arg  string `json:"arg,omitempty"`
	N    int    `json:"n,omitempty"`
	Size int    `json:"size,omitempty"` // extra payload bytes (forward / extension / sign)
}

// C11Plan is one concurrent shim world.
type C11Plan struct {
	// EagerTimers: timers of the code under test may fire at any moment after their creation; otherwise they fire
	// only when nothing else can run (time passes while everybody waits)
	EagerTimers bool           `json:"eager_timers,omitempty"`
	NoUp        bool           `json:"no_up"`
	Keys        []worlds.SKey  `json:"keys"`
	Certs       []worlds.SCert `json:"certs"`
	Init        []string       `json:"init"`
	InitMem     []string       `json:"init_mem,omitempty"`
	Tasks       [][]COp        `json:"tasks"`
	// Wire: every client task talks to the shim through its own connection served by yubiagent.ServeAgent on
	// its own task (as the agent daemon does), instead of calling the shim directly.
	Wire  bool `json:"wire,omitempty"`
	Local bool `json:"local,omitempty"` // wire variant: local-mode server instead of remote-mode
	// Late: which reads of the shim from the underlying agent, made under a deadline the shim armed itself and
	// finding nothing yet, time out because the agent is slower than that deadline (its reply arrives afterwards).
	// Code that arms no deadline is not affected.
	Late []int `json:"late,omitempty"`
	// Faults: failure replies of the underlying agent to the n-th request of a kind. Which operation meets the
	// fault depends on the schedule; every operation must still complete and nobody may be left holding a lock.
	Faults   []refagent.PeerFault `json:"faults,omitempty"`
	Strategy sched.Strategy       `json:"strategy"`
}

func pick[T any](r *sim.Rng, xs []T) T { return xs[r.Intn(len(xs))] }

var c11Ops = []string{"list", "signers", "sign", "add", "remove", "removeall", "addhard", "lock", "unlock", "ext", "forward", "usesigner"}

func genC11(r *sim.Rng, tier string) any {
	p := &C11Plan{NoUp: r.Bool(0.4), Wire: r.Bool(0.3)}
	p.Local = p.Wire && r.Bool(0.3)
	nk := r.Range(2, 4)
	for i := 0; i < nk; i++ {
		p.Keys = append(p.Keys, worlds.SKey{Role: fmt.Sprintf("K%d", i), Kind: pick(r, []string{"ed25519", "ed25519", "ecdsa256"})})
	}
	// validity windows that do not depend on the clock position (no bubble in scheduled runs)
	windows := []string{"forever", "forever", "past", "past", "zero", "above_maxint", "va_above"}
	kids := []string{"touchless", "touch", "free_text", "hw_firefighter"}
	nc := r.Range(2, 6)
	for i := 0; i < nc; i++ {
		p.Certs = append(p.Certs, worlds.SCert{Role: fmt.Sprintf("C%d", i), Key: p.Keys[r.Intn(nk)].Role, Window: pick(r, windows), KeyID: pick(r, kids), Comment: "c"})
	}
	for _, k := range p.Keys {
		if r.Bool(0.8) {
			p.Init = append(p.Init, k.Role)
		}
	}
	for _, c := range p.Certs {
		if r.Bool(0.5) {
			p.Init = append(p.Init, c.Role) // includes expired certificates: purging happens during the run
		} else if r.Bool(0.5) {
			p.InitMem = append(p.InitMem, c.Role)
		}
	}
	roles := func(certOnly bool) []string {
		var out []string
		if !certOnly {
			for _, k := range p.Keys {
				out = append(out, k.Role)
			}
		}
		for _, c := range p.Certs {
			out = append(out, c.Role)
		}
		return out
	}
	nt := pick(r, []int{2, 2, 3, 3, 4, 6, 8, 16})
	if p.Wire && nt > 8 {
		nt = 8 // two tasks per client in wire mode
	}
	maxOps := 40
	weights := []int{14, 14, 12, 8, 6, 1, 8, 2, 3, 10, 10, 8}
	if r.Bool(0.3) {
		weights = []int{10, 25, 5, 5, 5, 1, 5, 0, 0, 15, 15, 12} // signers / extension / forward heavy
	}
	total := 0
	for t := 0; t < nt; t++ {
		var ops []COp
		n := r.Range(1, 6)
		if total+n > maxOps {
			n = max(1, maxOps-total)
		}
		for i := 0; i < n; i++ {
			op := COp{Op: c11Ops[r.Weighted(weights)]}
			switch op.Op {
			case "sign", "remove", "add", "usesigner":
				op.Role = pick(r, roles(false))
			case "addhard":
				op.Role = pick(r, roles(true))
			case "lock", "unlock":
				op.Arg = pick(r, []string{"pw", "pw", "other"})
			case "forward":
				op.N = pick(r, []int{0, 2, 7, 20, 21, 28, 100, 200})
			}
			if (op.Op == "forward" || op.Op == "ext" || op.Op == "sign") && r.Bool(0.25) {
				op.Size = pick(r, []int{200, 300, 5000, 70000})
			}
			if op.Op == "add" && r.Bool(0.3) {
				op.N = pick(r, []int{3600, 86400, 1 << 30})
			}
			ops = append(ops, op)
		}
		total += n
		p.Tasks = append(p.Tasks, ops)
		if total >= maxOps {
			break
		}
	}
	if r.Bool(0.35) {
		for i := 0; i < r.Range(1, 2); i++ {
			p.Late = append(p.Late, r.Intn(4))
		}
	}
	if r.Bool(0.2) {
		for i := 0; i < r.Range(1, 2); i++ {
			p.Faults = append(p.Faults, refagent.PeerFault{At: -1, OnKind: pick(r, []string{"list", "list", "sign", "remove", "add"}), Nth: r.Intn(6), Fault: refagent.FaultFail})
		}
	}
	p.EagerTimers = r.Bool(0.4)
	p.Strategy = sched.Strategy{Kind: pick(r, []string{"random", "random", "pct", "pct", "rr"}), Seed: r.Uint64(), D: r.Range(1, 3), Horizon: 60 * total}
	return p
}

func shrinkC11(raw json.RawMessage) []json.RawMessage {
	var p C11Plan
	if json.Unmarshal(raw, &p) != nil {
		return nil
	}
	var out []json.RawMessage
	clone := func() C11Plan {
		var q C11Plan
		json.Unmarshal(raw, &q)
		return q
	}
	emit := func(q C11Plan) { b, _ := json.Marshal(q); out = append(out, b) }
	// dropping tasks or operations changes task ids and decision points: recorded choices are dropped too and the
	// strategy (same seed) decides again
	for i := range p.Tasks {
		if len(p.Tasks) > 1 {
			q := clone()
			q.Tasks = append(append([][]COp(nil), p.Tasks[:i]...), p.Tasks[i+1:]...)
			q.Strategy.Choices = nil
			emit(q)
		}
	}
	for i := range p.Tasks {
		for j := range p.Tasks[i] {
			if len(p.Tasks[i]) > 1 {
				q := clone()
				q.Tasks[i] = append(append([]COp(nil), p.Tasks[i][:j]...), p.Tasks[i][j+1:]...)
				q.Strategy.Choices = nil
				emit(q)
			}
		}
	}
	for i := range p.InitMem {
		q := clone()
		q.InitMem = append(append([]string(nil), p.InitMem[:i]...), p.InitMem[i+1:]...)
		q.Strategy.Choices = nil
		emit(q)
	}
	for i := range p.Init {
		q := clone()
		q.Init = append(append([]string(nil), p.Init[:i]...), p.Init[i+1:]...)
		q.Strategy.Choices = nil
		emit(q)
	}
	// simplify the schedule: keep a shorter prefix of the recorded choices (the tail becomes "stay on the
	// current task, else lowest id")
	if n := len(p.Strategy.Choices); n > 0 {
		for _, keep := range []int{0, n / 4, n / 2, 3 * n / 4, n - 1} {
			if keep < n {
				q := clone()
				q.Strategy.Choices = append([]int{}, p.Strategy.Choices[:keep]...)
				if keep == 0 {
					q.Strategy.Choices = []int{-1} // non-empty: switches replay mode on with an immediate fallback
				}
				emit(q)
			}
		}
	}
	return out
}

// ---- history ------------------------------------------------------------------

type cOut struct {
	Err   bool
	Panic string
	Keys  []string
	ErrS  string
}

type histOp struct {
	Task int
	Idx  int
	Op   COp
	Call int
	Ret  int
	Out  cOut
}

type linIn struct {
	Wire   bool
	Op     COp
	Ident  shimmodel.Ident
	UpSnap []string
	Init   shimmodel.State
}

// lstate is a model state with its canonical text (porcupine compares states).
type lstate struct {
	m   shimmodel.State
	key string
}

func canon(m *shimmodel.State) string {
	var sb strings.Builder
	for _, id := range m.Up {
		sb.WriteString(id.Blob)
		sb.WriteByte(',')
	}
	sb.WriteByte('|')
	for _, mc := range m.Mem {
		sb.WriteString(mc.Blob)
		sb.WriteByte('0' + byte(mc.State))
		sb.WriteByte(',')
	}
	sb.WriteByte('|')
	if m.UpLocked {
		sb.WriteString("U:" + m.UpPass)
	}
	if m.Locked {
		sb.WriteString("|L")
	}
	return sb.String()
}

func match(got, must, may []string) bool {
	cnt := map[string]int{}
	for _, g := range got {
		cnt[g]++
	}
	for _, m := range must {
		if cnt[m] == 0 {
			return false
		}
		cnt[m]--
	}
	mc := map[string]int{}
	for _, m := range may {
		mc[m]++
	}
	for g, n := range cnt {
		if n > mc[g] {
			return false
		}
	}
	return true
}

func linModel(now int64) porcupine.Model {
	return porcupine.Model{
		Init:  func() interface{} { return &lstate{} },
		Equal: func(a, b interface{}) bool { return a.(*lstate).key == b.(*lstate).key },
		Step: func(state, input, output interface{}) (bool, interface{}) {
			m := state.(*lstate).m.Clone()
			in := input.(linIn)
			out := output.(cOut)
			legal := true
			okIs := func(want int) bool {
				switch want {
				case shimmodel.OK:
					return !out.Err
				case shimmodel.Err:
					return out.Err
				}
				return true
			}
			switch in.Op.Op {
			case "init":
				m = in.Init.Clone()
			case "list":
				l, ok := m.List(now)
				if !ok {
					legal = !out.Err && len(out.Keys) == 0
				} else {
					legal = !out.Err && match(out.Keys, l.Must, l.May)
				}
			case "signers":
				l, ok := m.List(now)
				if !ok && in.Wire {
					legal = !out.Err && len(out.Keys) == 0 // the client builds its signers from a list request
				} else if !ok {
					legal = out.Err
				} else {
					legal = !out.Err && match(out.Keys, l.Must, l.May)
				}
			case "sign":
				w, _, _ := m.Sign(in.Op.Role, in.Ident.IsCert, in.Ident.YSSHCA, now)
				legal = okIs(w)
			case "add":
				legal = okIs(m.Add(in.Ident, now))
			case "addhard":
				legal = okIs(m.AddHard(in.Ident, now))
			case "remove":
				legal = okIs(m.Remove(in.Op.Role, now))
			case "removeall":
				legal = okIs(m.RemoveAll())
			case "lock":
				legal = okIs(m.Lock(in.Op.Arg))
			case "unlock":
				legal = okIs(m.Unlock(in.Op.Arg))
			case "usesigner":
				if in.Wire {
					// through the wire a signer of the client is a plain sign request to the shim (which purges first)
					w, _, _ := m.Sign(in.Op.Role, in.Ident.IsCert, in.Ident.YSSHCA, now)
					legal = okIs(w)
					break
				}
				// a signer handed out earlier: in-memory ones go through the shim again (and purge), the others
				// straight to the underlying agent; the outcome depends on what happened since and is not asserted
				if in.Ident.IsCert && m.MemHas(in.Op.Role) {
					m.Sign(in.Op.Role, true, in.Ident.YSSHCA, now)
				}
			case "ext", "forward":
				legal = !out.Err
			case "upsnap":
				var want []string
				for _, id := range m.Up {
					want = append(want, id.Blob)
				}
				sort.Strings(want)
				legal = strings.Join(want, ",") == strings.Join(in.UpSnap, ",")
			}
			return legal, &lstate{m: m, key: canon(&m)}
		},
		DescribeOperation: func(input, output interface{}) string {
			in := input.(linIn)
			out := output.(cOut)
			return fmt.Sprintf("%s(%s%s) -> err=%v keys=%v", in.Op.Op, in.Op.Role, in.Op.Arg, out.Err, out.Keys)
		},
	}
}

// ---- execution ------------------------------------------------------------------

func sigVerify(pub ssh.PublicKey, data []byte, sig *ssh.Signature) bool {
	if sig == nil {
		return false
	}
	if c, ok := pub.(*ssh.Certificate); ok {
		return c.Key.Verify(data, sig) == nil
	}
	return pub.Verify(data, sig) == nil
}

func panicSite(stack []byte) string {
	lines := strings.Split(string(stack), "\n")
	seen := false
	for _, l := range lines {
		if strings.HasPrefix(l, "panic(") {
			seen = true
			continue
		}
		if !seen || strings.HasPrefix(l, "\t") || l == "" || strings.HasPrefix(l, "runtime.") {
			continue
		}
		if i := strings.LastIndex(l, "("); i > 0 {
			l = l[:i]
		}
		return l
	}
	return "unknown"
}

func execC11(t *testing.T, raw json.RawMessage) *sim.Outcome {
	o := &sim.Outcome{}
	var p C11Plan
	if err := json.Unmarshal(raw, &p); err != nil {
		o.Fail("harness.plan", "unmarshal", 0, "%v", err)
		return o
	}
	cat := worlds.NewCatalog(p.Keys, p.Certs)
	now := time.Now().Unix()
	ref := refagent.New()
	model := shimmodel.State{NoUp: p.NoUp}
	for _, r := range p.Init {
		ref.DirectAdd(cat.Added(r, 0))
		model.Add(cat.Ident(r, 0, now), now)
	}
	s := sched.New(p.Strategy, 40000)
	s.LazyTimers = true // (while the shim is being constructed; the plan's policy applies from then on)
	s.KeepLog = false
	timersBefore := simtime.Fired()
	a, b := schedconn.Pipe("upstream")
	a.LateAt = p.Late
	peer := &refagent.Peer{Agent: ref} // the plan's faults are armed once the shim is constructed
	upFaults := 0
	peer.OnFault = func(kind, fault string, idx int) { upFaults = bumpInt(upFaults) }
	s.Go("upstream", true, func() { peer.Serve(b) })

	var shim shimagent.ShimAgent
	rs := &runState{remaining: len(p.Tasks)}
	doneObj := &struct{ name string }{"clients-done"}

	var runOp func(shim shimagent.ShimAgent, task, idx int, op COp)
	runOp = func(shim shimagent.ShimAgent, task, idx int, op COp) {
		if op.Op == "usesigner" {
			// first list the signers (an operation of its own), then sign through the one for Role
			var sg []ssh.Signer
			h0 := histOp{Task: task, Idx: idx, Op: COp{Op: "signers"}}
			h0.Call = s.Stamp()
			func() {
				defer func() {
					if r := recover(); r != nil {
						h0.Out.Panic = fmt.Sprintf("%v @ %s", r, panicSite(debug.Stack()))
						h0.Out.Err = true
					}
				}()
				var err error
				sg, err = shim.Signers()
				h0.Out.Err = err != nil
				for _, x := range sg {
					h0.Out.Keys = append(h0.Out.Keys, cat.RoleOf(x.PublicKey().Marshal()))
				}
			}()
			sort.Strings(h0.Out.Keys)
			h0.Ret = s.Stamp()
			rs.rec(h0)
			blob := cat.Pub(op.Role).Marshal()
			for _, x := range sg {
				if !bytes.Equal(x.PublicKey().Marshal(), blob) {
					continue
				}
				h := histOp{Task: task, Idx: idx, Op: op}
				data := []byte(fmt.Sprintf("tag-%d-%d-s", task, idx))
				h.Call = s.Stamp()
				func() {
					defer func() {
						if r := recover(); r != nil {
							h.Out.Panic = fmt.Sprintf("%v @ %s", r, panicSite(debug.Stack()))
							h.Out.Err = true
						}
					}()
					sig, err := x.Sign(nil, data)
					if err != nil {
						h.Out.Err = true
					} else if !sigVerify(x.PublicKey(), data, sig) {
						rs.tagErr(fmt.Sprintf("task %d op %d: signature made through a listed signer for %s does not verify over the caller's own data", task, idx, op.Role))
					}
				}()
				h.Ret = s.Stamp()
				rs.rec(h)
				break
			}
			return
		}
		h := histOp{Task: task, Idx: idx, Op: op}
		data := []byte(fmt.Sprintf("tag-%d-%d", task, idx))
		if (op.Op == "forward" || op.Op == "ext" || op.Op == "sign") && op.Size > 0 {
			// a larger payload, different for every caller: buffers shared between connections show up as foreign bytes
			pad := make([]byte, op.Size)
			for i := range pad {
				pad[i] = byte(task*31 + idx*7 + i)
			}
			data = append(data, pad...)
		}
		h.Call = s.Stamp()
		func() {
			defer func() {
				if r := recover(); r != nil {
					h.Out.Panic = fmt.Sprintf("%v @ %s", r, panicSite(debug.Stack()))
					h.Out.Err = true
				}
			}()
			var err error
			switch op.Op {
			case "list":
				var ks []*agent.Key
				ks, err = shim.List()
				for _, k := range ks {
					h.Out.Keys = append(h.Out.Keys, cat.RoleOf(k.Blob))
				}
			case "signers":
				var sg []ssh.Signer
				sg, err = shim.Signers()
				for _, x := range sg {
					h.Out.Keys = append(h.Out.Keys, cat.RoleOf(x.PublicKey().Marshal()))
				}
			case "sign":
				var sig *ssh.Signature
				pub := cat.Pub(op.Role)
				sig, err = shim.Sign(pub, data)
				if err == nil && !sigVerify(pub, data, sig) {
					rs.tagErr(fmt.Sprintf("task %d op %d sign %s: the returned signature does not verify over the caller's own data", task, idx, op.Role))
				}
			case "add":
				// a lifetime far beyond the run: nothing expires by itself while the run lasts
				err = shim.Add(cat.Added(op.Role, uint32(op.N)))
			case "remove":
				err = shim.Remove(cat.Pub(op.Role))
			case "removeall":
				err = shim.RemoveAll()
			case "addhard":
				err = shim.AddHardCert(cat.Pub(op.Role), "hw")
			case "lock":
				err = shim.Lock([]byte(op.Arg))
			case "unlock":
				err = shim.Unlock([]byte(op.Arg))
			case "ext":
				var out []byte
				out, err = shim.Extension("echo@verif", data)
				s.Yield("use-reply", "caller") // callers look at what they got back later, while others go on
				if err == nil && string(out) != "echo:"+string(data) {
					rs.tagErr(fmt.Sprintf("task %d op %d extension: reply %q is not the answer to this caller's request %q", task, idx, out, data))
				}
			case "forward":
				req := append([]byte{byte(op.N)}, data...)
				var out []byte
				out, err = shim.Forward(req)
				s.Yield("use-reply", "caller")
				if err == nil && !bytes.Equal(out, refagent.EchoReply(req)) {
					rs.tagErr(fmt.Sprintf("task %d op %d forward: reply %q is not the answer to this caller's request %q", task, idx, out, req))
				}
			}
			if err != nil {
				h.Out.Err = true
				h.Out.ErrS = err.Error()
			}
		}()
		sort.Strings(h.Out.Keys)
		h.Ret = s.Stamp()
		rs.rec(h)
	}

	var initErr string
	s.Go("init", false, func() {
		var err error
		func() {
			defer func() {
				if r := recover(); r != nil {
					initErr = fmt.Sprintf("panic: %v", r)
				}
			}()
			shim, err = shimagent.VerifNewFromConn(a, shimagent.Option{NoUpstream: p.NoUp})
			if err != nil {
				initErr = err.Error()
				return
			}
			for _, r := range p.InitMem {
				if shim.AddHardCert(cat.Pub(r), "hw") == nil {
					model.AddHard(cat.Ident(r, 0, now), now)
				}
			}
		}()
		if initErr != "" {
			a.Close()
			return
		}
		s.SetLazyTimers(!p.EagerTimers)
		armFaults(peer, p.Faults)
		yubi := yubiagent.VerifNewServer(shim, "/nonexistent/yubico-piv-tool", !p.Local)
		for ti := range p.Tasks {
			ti := ti
			if !p.Wire {
				s.Go(fmt.Sprintf("client%d", ti), false, func() {
					for oi, op := range p.Tasks[ti] {
						runOp(shim, ti, oi, op)
					}
					rs.doneOne()
					s.Wake(doneObj)
				})
				continue
			}
			cc, sc := schedconn.Pipe(fmt.Sprintf("conn%d", ti))
			s.Go(fmt.Sprintf("server%d", ti), false, func() {
				defer func() {
					if r := recover(); r != nil {
						rs.tagErr(fmt.Sprintf("PANIC server task of connection %d: %v @ %s", ti, r, panicSite(debug.Stack())))
					}
					sc.Close()
				}()
				yubiagent.ServeAgent(yubi, sc)
			})
			s.Go(fmt.Sprintf("client%d", ti), false, func() {
				cli, err := yubiagent.NewClientFromConn(cc)
				if err == nil {
					for oi, op := range p.Tasks[ti] {
						runOp(cli, ti, oi, op)
					}
				}
				cc.Close()
				rs.doneOne()
				s.Wake(doneObj)
			})
		}
		s.Go("closer", false, func() {
			for rs.left() > 0 {
				s.Wait(doneObj, "join")
			}
			// final observation, part of the history
			runOp(shim, len(p.Tasks), 0, COp{Op: "list"})
			runOp(shim, len(p.Tasks), 1, COp{Op: "signers"})
			a.Close()
		})
	})
	spawnedBefore := simsync.Spawned()
	s.Run()
	chanProbes(o, s, spawnedBefore)
	if os.Getenv("VERIF_DEBUG_TASKS") != "" {
		for _, tk := range s.Tasks() {
			bl, on := tk.IsBlocked()
			if !tk.IsDone() {
				fmt.Fprintf(os.Stderr, "task %s daemon=%v done=%v blocked=%v on=%v wire=%v\n", tk.Name, tk.Daemon, tk.IsDone(), bl, on, p.Wire)
			}
		}
	}
	o.Interleaving = s.OrderHash()
	if s.Aborted() {
		what := "deadlock"
		if s.StepCap {
			what = "step_cap"
		}
		total := 0
		for _, tk := range p.Tasks {
			total += len(tk)
		}
		o.Recorded = mustJSON(withChoices(p, s.Choices))
		o.Fatal = true
		if s.TimeStall {
			// (only a real timer or deadline of the code under test could still complete the pending operations: a
			// scheduled run has no clock, so nothing is concluded about completion)
			o.Probe("run_left_waiting_for_real_time")
			o.Signature = "aborted:time_stall"
			return o
		}
		o.Fail("C11.completes", what, rs.count(), "%s: %d of %d operations completed; blocked: %v", what, rs.count(), total+2, s.Stuck)
		o.Signature = "aborted:" + what
		return o
	}
	hist, tagErrs := rs.hist, rs.tagErrs

	// ---- verdicts ----
	if initErr != "" {
		o.Fail("harness.init", "shim_construct", 0, "constructing the shim under the scheduler failed: %s", initErr)
		return o
	}
	total := 0
	for _, tk := range p.Tasks {
		total += len(tk)
	}
	recorded := mustJSON(withChoices(p, s.Choices))
	o.Recorded = recorded
	if s.Deadlock || s.StepCap {
		what := "deadlock"
		if s.StepCap {
			what = "step_cap"
		}
		o.Fatal = true
		o.Fail("C11.completes", what, len(hist), "%s: %d of %d operations completed; blocked: %v", what, len(hist), total+2, s.Stuck)
		o.Signature = "aborted:" + what
		return o
	}
	for _, h := range hist {
		if h.Out.Panic != "" {
			o.Fail("C11.no_crash", "panic:"+h.Op.Op, h.Idx, "task %d %s panicked: %s", h.Task, h.Op.Op, h.Out.Panic)
		}
	}
	for _, e := range tagErrs {
		if strings.HasPrefix(e, "PANIC ") {
			o.Fail("C11.no_crash", "server_panic", 0, "%s", e)
			continue
		}
		o.Fail("C11.own_reply", "foreign_reply", 0, "%s", e)
	}
	checkDiscipline(o, a, b, simsync.Spawned() > spawnedBefore)
	if n := simtime.Fired() - timersBefore; n > 0 {
		// The code under test armed callback timers and the scheduler fired them (at arbitrary moments: a scheduled
		// run has no clock). What such a callback does is not an operation of the sequential model, so - as for an
		// expired deadline - the linearizability verdict is not drawn; races, crashes, reply ownership, transport
		// discipline and completion are.
		for i := 0; i < n; i++ {
			o.Fault("callback_timer_fired")
		}
		o.Signature = fmt.Sprintf("timers:%d:%s", n, s.OrderHash())
		return o
	}
	if upFaults > 0 {
		// The underlying agent refused a request it would have served: which operation met the refusal and what
		// it then reports depends on the schedule and is judged in the sequential worlds; here completion (no
		// operation may hang, no lock may stay held), crashes, reply ownership and transport discipline are judged.
		for i := 0; i < upFaults; i++ {
			o.Fault("upstream/fail")
		}
		o.Signature = fmt.Sprintf("upfault:%d:%s", upFaults, s.OrderHash())
		return o
	}
	if a.Expired > 0 {
		// The shim gave up on a reply: what the abandoned request did to the underlying agent and which later
		// calls may legitimately fail is no longer determined, so only completion, crashes, reply ownership and
		// transport discipline are judged for this run.
		o.Fault("upstream_slower_than_deadline")
		o.Signature = fmt.Sprintf("late:%d:%s", a.Expired, s.OrderHash())
		return o
	}
	// linearizability against the sequential model
	ops := []porcupine.Operation{{ClientId: len(p.Tasks) + 1, Input: linIn{Op: COp{Op: "init"}, Init: model}, Output: cOut{}, Call: -2, Return: -1}}
	maxRet := 0
	for _, h := range hist {
		in := linIn{Op: h.Op, Wire: p.Wire && h.Task < len(p.Tasks)}
		if h.Op.Role != "" {
			in.Ident = cat.Ident(h.Op.Role, 0, now)
			if h.Op.Op == "add" {
				in.Ident = cat.Ident(h.Op.Role, uint32(h.Op.N), now)
			}
		}
		ops = append(ops, porcupine.Operation{ClientId: h.Task, Input: in, Output: h.Out, Call: int64(h.Call), Return: int64(h.Ret)})
		if h.Ret > maxRet {
			maxRet = h.Ret
		}
	}
	var snap []string
	for _, id := range ref.Snapshot() {
		snap = append(snap, cat.RoleOf(id.Blob))
	}
	sort.Strings(snap)
	ops = append(ops, porcupine.Operation{ClientId: len(p.Tasks) + 1, Input: linIn{Op: COp{Op: "upsnap"}, UpSnap: snap}, Output: cOut{}, Call: int64(maxRet + 1), Return: int64(maxRet + 2)})
	res, info := porcupine.CheckOperationsVerbose(linModel(now), ops, 20*time.Second)
	switch res {
	case porcupine.Illegal:
		o.Fail("C11.linearizable", "not_linearizable", len(hist), "the recorded history of %d operations (+ final upstream snapshot %v) has no sequential explanation: %s", len(hist), snap, describeHistory(hist, info))
	case porcupine.Unknown:
		o.Inconclusive++
	default:
		o.Probe("linearizable")
	}
	var sig []string
	for _, h := range hist {
		sig = append(sig, fmt.Sprintf("%d:%s:%v", h.Task, h.Op.Op, h.Out.Err))
	}
	sort.Strings(sig)
	o.Signature = fmt.Sprintf("noup=%v|wire=%v|%s", p.NoUp, p.Wire, strings.Join(sig, ","))
	if p.Wire {
		o.Probe("wire_stack_run")
	}
	for _, h := range hist {
		o.Logf("task %d op %d %s %s -> err=%v keys=%v", h.Task, h.Idx, h.Op.Op, h.Op.Role, h.Out.Err, h.Out.Keys)
	}
	o.Fault("schedule/" + p.Strategy.Kind)
	if s.LockWaits > 0 {
		o.Probe("runs_with_lock_contention")
	}
	for i := 0; i < s.LockWaits && i < 1000; i++ {
		o.Probe("lock_waits")
	}
	for i := 0; i < s.Switches/100; i++ {
		o.Probe("task_switches_x100")
	}
	purged := false
	for _, r := range p.Init {
		if cat.IsCert(r) {
			id := cat.Ident(r, 0, now)
			if shimmodel.Validity(id.VA, id.VB, now) == shimmodel.Invalid && ref != nil {
				still := false
				for _, x := range snap {
					if x == r {
						still = true
					}
				}
				if !still {
					purged = true
				}
			}
		}
	}
	if purged {
		o.Probe("purge_during_concurrent_run")
	}
	if s.Diverged {
		o.Probe("replay_diverged")
	}
	return o
}

// runState is shared by the tasks of one run; it is touched only from
// //go:norace code so that the harness adds neither races nor ordering.
type runState struct {
	hist      []histOp
	tagErrs   []string
	remaining int
}

//go:norace
func (r *runState) rec(h histOp) { r.hist = append(r.hist, h) }

//go:norace
func (r *runState) tagErr(s string) { r.tagErrs = append(r.tagErrs, s) }

//go:norace
func (r *runState) doneOne() { r.remaining-- }

//go:norace
func (r *runState) left() int { return r.remaining }

//go:norace
func (r *runState) count() int { return len(r.hist) }

func withChoices(p C11Plan, ch []int) C11Plan {
	p.Strategy.Choices = append([]int{}, ch...)
	return p
}

//go:norace
func bumpInt(n int) int { return n + 1 }

//go:norace
func armFaults(p *refagent.Peer, fs []refagent.PeerFault) {
	p.Faults = append([]refagent.PeerFault(nil), fs...)
}

func mustJSON(v any) json.RawMessage { b, _ := json.Marshal(v); return b }

func describeHistory(hist []histOp, info porcupine.LinearizationInfo) string {
	var sb strings.Builder
	for _, h := range hist {
		fmt.Fprintf(&sb, "[t%d %s %s%s call=%d ret=%d err=%v keys=%v] ", h.Task, h.Op.Op, h.Op.Role, h.Op.Arg, h.Call, h.Ret, h.Out.Err, h.Out.Keys)
	}
	s := sb.String()
	if len(s) > 1500 {
		s = s[:1500] + "..."
	}
	return s
}

// checkDiscipline: every request frame on the upstream connection comes from
// one task without foreign bytes in between, and the reply to the k-th request
// is read only by the task that wrote it.
func checkDiscipline(o *sim.Outcome, a, b *schedconn.End, daemons bool) {
	sent, writes := a.Sent()
	owner := make([]int, 0, len(sent))
	for _, w := range writes {
		for i := 0; i < w.N; i++ {
			owner = append(owner, w.Task)
		}
	}
	var reqOwner []int
	for off := 0; off+4 <= len(sent); {
		l := int(binary.BigEndian.Uint32(sent[off:]))
		end := off + 4 + l
		if daemons && l <= 1<<24 && end > len(sent) {
			// the stream ends inside a well-formed frame and goroutines of the code under test were still at work
			// when the last client operation returned (an abandoned request that is still being sent): no interleaving
			o.Probe("stream_ends_inside_a_frame_of_a_background_goroutine")
			break
		}
		if l > 1<<24 || end > len(sent) {
			o.Fail("C11.transport", "garbled_frame", len(reqOwner), "request stream to the underlying agent is garbled at offset %d (declared length %d, %d bytes left): frames of different callers were interleaved (bytes %s)", off, l, len(sent)-off, hex.EncodeToString(sent[off:min(len(sent), off+24)]))
			return
		}
		t0 := owner[off]
		for i := off; i < end; i++ {
			if owner[i] != t0 {
				o.Fail("C11.transport", "interleaved_frame", len(reqOwner), "request frame %d to the underlying agent contains bytes written by tasks %d and %d", len(reqOwner), t0, owner[i])
				return
			}
		}
		reqOwner = append(reqOwner, t0)
		off = end
	}
	// replies: the k-th reply frame must be read entirely by the writer of the k-th request
	replies, _ := b.Sent()
	var reader []int
	for _, c := range a.Reads() {
		for i := 0; i < c.N; i++ {
			reader = append(reader, c.Task)
		}
	}
	k := 0
	for off := 0; off+4 <= len(replies) && k < len(reqOwner); k++ {
		l := int(binary.BigEndian.Uint32(replies[off:]))
		end := off + 4 + l
		if end > len(replies) {
			break
		}
		for i := off; i < end && i < len(reader); i++ {
			if reader[i] != reqOwner[k] {
				o.Fail("C11.transport", "reply_stolen", k, "reply %d of the underlying agent answers a request of task %d but was read by task %d", k, reqOwner[k], reader[i])
				return
			}
		}
		off = end
	}
	o.Probe("transport_disciplined")
}

// SpecC11 explores property C11.
var SpecC11 = &sim.Spec{Property: "C11", World: "C", Generate: genC11, Execute: execC11, Shrink: shrinkC11, Isolated: true, PostProcess: racePost("C11")}
