// Package worldg is the gensign world: sshd environment -> csr.NewReqParam ->
// config.NewGensignConfig -> regular.NewHandler over a simulated connection to
// an untrusted forwarded agent (+ stub handlers) -> gensign.Run with a scripted
// CA, several runs in a row against the same agent, inside one bubble.
package worldg

import (
	"encoding/json"
	"fmt"
	"strings"

	"verifsim/refagent"
	"verifsim/sim"
)

// GUser is a user known to the server: a registered long-term key and the
// state of the registered-key directory for that name.
type GUser struct {
	Name    string `json:"name"`
	KeyKind string `json:"key_kind"`
	// Dir: none | pub | bare | both_same | both_diff | unparsable | empty | dir
	Dir string `json:"dir"`
}

// PreID is an identity the agent holds before the first run.
type PreID struct {
	Kind    string `json:"kind"` // plain | cert | ysshcert (a certificate with a well-formed YSSHCA KeyID from elsewhere)
	Label   string `json:"label"`
	Comment string `json:"comment"`
}

// GCA scripts the CA for one run.
type GCA struct {
	Mode     string   `json:"mode"` // ok | err | panic
	NCerts   int      `json:"ncerts"`
	Comments []string `json:"comments,omitempty"`
	FailAt   int      `json:"fail_at"` // signer call index that fails/panics (mode err/panic); -1: never
	// SkewSec: the CA's clock relative to the RA's (the validity window of what it returns starts that much later
	// or earlier); StaggerSec: each further certificate of one reply starts that much later than the one before
	SkewSec int64 `json:"skew_sec,omitempty"`
	// DelaySec: the CA takes that long (on the simulated clock) before it answers or fails; the caller's context
	// has a 60 s deadline, so 61 and more means that the deadline has passed when the answer arrives
	DelaySec   int64 `json:"delay_sec,omitempty"`
	StaggerSec int64 `json:"stagger_sec,omitempty"`
}

// GRun is one invocation of gensign.
type GRun struct {
	LogName     string               `json:"logname"`
	ReqUser     string               `json:"req_user"`
	ReqHost     string               `json:"req_host"`
	IP          string               `json:"ip"`
	Policy      string               `json:"policy"`
	HardKey     bool                 `json:"hard_key"`
	CAAlgo      int                  `json:"ca_algo"` // -1: field omitted
	Legacy      bool                 `json:"legacy"`
	Handlers    []string             `json:"handlers"` // "regular" | "stub:<auth>" with auth in ok|fail|panic
	Agent       string               `json:"agent"`    // behaviour on sign requests
	Faults      []refagent.PeerFault `json:"faults,omitempty"`
	CA          GCA                  `json:"ca"`
	StubPanic   string               `json:"stub_panic,omitempty"`    // Name|Generate|CSRs|AddCertsToAgent of the selected stub
	StubCSRs    int                  `json:"stub_csrs"`               // CSRs per agent key of stub handlers
	StubKeys    int                  `json:"stub_keys,omitempty"`     // agent keys returned by a stub handler (0 means 1)
	StubAddFail int                  `json:"stub_add_fail,omitempty"` // 1-based index of the stub agent key whose AddCertsToAgent fails (0: none)
	SSHVer      string               `json:"ssh_ver,omitempty"`       // client-declared SSH version ("" means 8.1)
	AdvanceS    int64                `json:"advance_s"`
	// DirChange: before this run the key directory entry of the login name is rotated (another key), deleted or
	// registered; the path of the directory stays the same
	DirChange string `json:"dir_change,omitempty"`
	// further client claims carried by the command text: none of them may influence the signing request
	Touch2SSH   bool   `json:"touch2ssh,omitempty"`
	Firefighter bool   `json:"firefighter,omitempty"`
	SudoHosts   string `json:"sudo_hosts,omitempty"`
	SudoTime    int    `json:"sudo_time,omitempty"`
	SigAlgo     int    `json:"sig_algo,omitempty"`
	Exts        bool   `json:"exts,omitempty"`
}

// GPlan is one world: users, configuration, agent content and a run history.
type GPlan struct {
	Users       []GUser           `json:"users"`
	AgentKeys   []string          `json:"agent_keys"` // names of users whose long-term key the agent holds
	ValiditySec uint64            `json:"validity_sec"`
	KeyIDs      map[string]string `json:"key_ids"`
	PreIDs      []PreID           `json:"pre_ids,omitempty"`
	Runs        []GRun            `json:"runs"`
	// KeyLabel: the handler option key_label ("": not set)
	KeyLabel string `json:"key_label,omitempty"`
	// ReuseHandlers: later runs whose handler list equals that of run 0 are served by the handler objects (and the
	// agent connection) of run 0 - one RA process serving several requests
	ReuseHandlers bool `json:"reuse_handlers,omitempty"`
	// Overlap: runs 0 and 1 are two requests served by one process at the same time: run 0 is held at its
	// OverlapAt-th agent request (its simulated agent takes its time) while run 1 - another connection, another
	// forwarded agent - is served from start to end; then run 0 goes on
	Overlap   bool `json:"overlap,omitempty"`
	OverlapAt int  `json:"overlap_at,omitempty"`
	// OverlapBNoKey: run 1 is a request for the same login name as run 0, on a connection whose forwarded agent
	// does not hold that user's key (somebody else asking for the same account at the same moment)
	OverlapBNoKey bool `json:"overlap_b_no_key,omitempty"`
	// Enum, for C04: enumerate every single-fault placement of run 0. Only, when
	// set, restricts the enumeration to one placement (the minimised replay).
	Enum bool       `json:"enum,omitempty"`
	Only *Placement `json:"only,omitempty"`
}

// Placement is one single fault of the C04 enumeration.
type Placement struct {
	Site  string `json:"site"` // agent | signer | stub
	Index int    `json:"index"`
	Fault string `json:"fault"`
}

// Agent behaviours on the challenge.
var agentBehaviours = []string{"honest", "otherkey", "otherdata", "replay", "emptysig", "garbagesig", "fail", "close", "wrongformat"}

var oddNames = []string{"alice", "bob", "we\"ird", "üser-ñ", "a b", "x{y}", "back\\slash", "tab\tname", "carol.smith", "root", "日本",
	"lit\\u003cesc", "a<b>&c", "amp\\u0026x", "nl\\nname", "sep\u2028x", "per%cent%s", "x\\\\y", "q'uote",
	"dot.", "UPPER", "a-rather-long-user-name-that-goes-on-and-on-0123456789"}

// longDeclared are client-declared user names around and above 255 bytes (never login names: those are file names).
var longDeclared = []string{strings.Repeat("u", 255), strings.Repeat("v", 256), strings.Repeat("w", 254) + "é", strings.Repeat("long-user-", 120)}
var oddHosts = []string{"host.example.com", "h\"q", "ホスト", "a b c", "{\"x\":1}", "laptop-01", "x,y", "null",
	"h\\u003e.example", "<host>&co", "a\\u0026b", "bs\\", "\\\"", "ctl\x01x", "tab\there", "h\\u0000x", "%s%d",
	"host.example.com.", "HOST.Example.COM", " lead.example.com", "trail.example.com ", "a-very-long-cloud-instance-name-0123456789abcdef.eu-central-1.compute.internal.example.com", "[::1]", "host:22",
	strings.Repeat("h", 255) + ".example.com", strings.Repeat("ホ", 85) + "x", strings.Repeat("label.", 200) + "example.com"}
var oddIPs = []string{"1.2.3.4", "10.0.0.254", "::1", "2001:db8::17", "192.168.223.229", "fe80::1"}
var algoSpellings = map[int][]string{
	0: {"default", "Default", "DEFAULT", "unknown", "0"},
	1: {"rsa", "RSA", "Rsa", "1"},
	3: {"ecdsa", "ECDSA", "3"},
	4: {"ed25519", "Ed25519", "4"},
}

func pick[T any](r *sim.Rng, xs []T) T { return xs[r.Intn(len(xs))] }

func genUsers(r *sim.Rng, n int, odd bool) []GUser {
	perm := r.Perm(len(oddNames))
	var us []GUser
	for i := 0; i < n; i++ {
		name := oddNames[perm[i]]
		if !odd {
			name = []string{"alice", "bob", "carol.smith", "root"}[i%4]
		}
		dirs := []string{"pub", "pub", "pub", "pub_commented", "bare", "both_same", "both_diff", "none", "unparsable", "empty", "dir",
			"pub_symlink", "pub_dangling", "pub_dangling_bare", "pub_loop", "pub_loop_bare", "bare_loop"}
		us = append(us, GUser{Name: name, KeyKind: pick(r, []string{"ed25519", "ed25519", "ecdsa256", "rsa2048"}), Dir: pick(r, dirs)})
	}
	// the first user is usually fully registered so that honest runs can succeed
	if r.Bool(0.8) {
		us[0].Dir = pick(r, []string{"pub", "pub_commented", "bare", "both_same", "both_diff"})
	}
	return us
}

func genKeyIDs(r *sim.Rng) map[string]string {
	m := map[string]string{}
	for _, a := range []int{0, 1, 3, 4} {
		if a == 0 && r.Bool(0.85) || a != 0 && r.Bool(0.5) {
			m[pick(r, algoSpellings[a])] = fmt.Sprintf("slot-%d-%d", a, r.Intn(100))
		}
	}
	return m
}

func genValidity(r *sim.Rng) uint64 {
	if r.Intn(25) == 0 {
		return 0 // configured explicitly as zero: the request asks for zero, the lifetime is still finite and not shorter
	}
	switch r.Intn(6) {
	case 0:
		return 1
	case 1:
		return uint64(r.Range(2, 3600))
	case 2:
		return 12 * 3600
	case 3:
		return uint64(r.Range(86400, 30*86400))
	case 4:
		return 10 * 365 * 86400
	}
	return uint64(r.Range(60, 365*86400))
}

func genRun(r *sim.Rng, p *GPlan, faulty bool, odd bool) GRun {
	u := p.Users[0]
	if r.Bool(0.3) {
		u = pick(r, p.Users)
	}
	run := GRun{LogName: u.Name, ReqUser: u.Name, ReqHost: "host.example.com", IP: "1.2.3.4", Policy: "NONS",
		CAAlgo: -1, Handlers: []string{"regular"}, Agent: "honest", StubCSRs: 1,
		CA: GCA{Mode: "ok", NCerts: 1, FailAt: -1}}
	if odd || r.Bool(0.3) {
		run.ReqUser = pick(r, oddNames)
		run.ReqHost = pick(r, oddHosts)
		run.IP = pick(r, oddIPs)
	}
	if r.Bool(0.25) {
		// client claims to be another registered user
		run.ReqUser = pick(r, p.Users).Name
	}
	if r.Bool(0.06) {
		run.ReqUser = pick(r, longDeclared)
	}
	if r.Bool(0.12) {
		run.Policy = "NSOK"
	}
	if r.Bool(0.35) {
		run.Touch2SSH = r.Bool(0.6)
		run.Firefighter = r.Bool(0.4)
		if r.Bool(0.5) {
			run.SudoHosts = pick(r, []string{"h1.example.com", "h1,h2,h3", "*"})
			run.SudoTime = pick(r, []int{0, 5, 60, 100000})
		}
		run.SigAlgo = pick(r, []int{0, 3, 4, 10, 16})
		run.Exts = r.Bool(0.5)
	}
	if r.Bool(0.1) {
		run.HardKey = true
	}
	if r.Bool(0.5) {
		run.CAAlgo = pick(r, []int{0, 0, 1, 3, 4, 2})
	}
	if r.Bool(0.15) {
		// the legacy command text cannot carry whitespace, '@' or a CA key algorithm
		run.Legacy = true
		run.CAAlgo = -1
		if strings.ContainsAny(run.ReqUser+run.ReqHost, " \t@") {
			run.ReqUser, run.ReqHost = u.Name, "host.example.com"
			if strings.ContainsAny(u.Name, " \t@") {
				run.Legacy = false
			}
		}
	}
	if r.Bool(0.35) {
		n := r.Range(1, 4)
		run.Handlers = nil
		for i := 0; i < n; i++ {
			run.Handlers = append(run.Handlers, pick(r, []string{"regular", "stub:ok", "stub:fail", "stub:fail", "stub:panic", "stub:fail_disabled", "stub:fail_typed"}))
		}
		run.StubCSRs = r.Range(0, 3)
		run.StubKeys = r.Range(1, 3)
		if r.Bool(0.2) {
			run.StubAddFail = r.Range(1, run.StubKeys)
		}
	}
	if r.Bool(0.3) {
		// what the client says about itself must not change which CA key signs: old, odd and boundary versions too
		run.SSHVer = pick(r, []string{"7.4", "9.9", "6.6", "10.0", "65535.65535", "6.5", "6.4", "5.7", "5.6", "5.3", "4.3", "1.0", "0.1", "0.0", "3.9"})
	}
	if r.Bool(0.02) {
		run.Handlers = []string{} // no handler configured at all: nothing may happen, all authentications failed
	}
	if r.Bool(0.45) {
		run.Agent = pick(r, agentBehaviours)
	}
	run.CA.NCerts = pick(r, []int{1, 1, 1, 2, 3, 0})
	if r.Bool(0.25) {
		run.CA.SkewSec = int64(pick(r, []int{-400 * 86400, -3600, -2, 2, 60, 3600, 86400}))
	}
	if r.Bool(0.1) {
		run.CA.StaggerSec = int64(pick(r, []int{1, 3600}))
	}
	if r.Bool(0.12) {
		run.CA.DelaySec = int64(pick(r, []int{1, 59, 61, 61, 3600}))
	}
	for i := 0; i < r.Range(0, 3); i++ {
		run.CA.Comments = append(run.CA.Comments, pick(r, []string{"", "touch", "c2", "hello world", "paranoids.regular", "x-paranoids.regular-cert"}))
	}
	if faulty {
		switch r.Intn(5) {
		case 0:
			run.CA.Mode, run.CA.FailAt = "err", r.Intn(2)
		case 1:
			run.CA.Mode, run.CA.FailAt = "panic", r.Intn(2)
		case 2, 3:
			run.Faults = append(run.Faults, refagent.PeerFault{At: r.Intn(8), Fault: pick(r, append(append([]string(nil), refagent.AllFaults...), refagent.FaultCloseLost, refagent.FaultCloseLost))})
		case 4:
			run.StubPanic = pick(r, []string{"Name", "Generate", "CSRs", "AddCertsToAgent"})
		}
	}
	if r.Bool(0.3) {
		run.AdvanceS = pick(r, []int64{1, 60, 3600, 86400, 7 * 86400, 400 * 86400})
	}
	return run
}

func genWorld(r *sim.Rng, odd bool, faultRate float64, maxRuns int) *GPlan {
	p := &GPlan{}
	p.Users = genUsers(r, r.Range(1, 4), odd)
	lookalike := ""
	if r.Bool(0.2) {
		// an account whose name merely resembles a registered one and has no key file of its own
		base := p.Users[0].Name
		cands := []string{strings.ToUpper(base), strings.ToLower(base), strings.ToUpper(base[:1]) + base[1:], base + "2", base[:len(base)-1]}
		for _, c := range cands {
			taken := c == "" || strings.ContainsAny(c, "/\x00")
			for _, u := range p.Users {
				if u.Name == c {
					taken = true
				}
			}
			if !taken && r.Bool(0.5) {
				lookalike = c
				break
			}
		}
		if lookalike != "" {
			p.Users = append(p.Users, GUser{Name: lookalike, KeyKind: p.Users[0].KeyKind, Dir: "none"})
		}
	}
	for _, u := range p.Users {
		if r.Bool(0.75) {
			p.AgentKeys = append(p.AgentKeys, u.Name)
		}
	}
	if len(p.AgentKeys) == 0 || r.Bool(0.7) && p.AgentKeys[0] != p.Users[0].Name {
		p.AgentKeys = append([]string{p.Users[0].Name}, p.AgentKeys...)
	}
	p.ValiditySec = genValidity(r)
	p.KeyIDs = genKeyIDs(r)
	near := []string{"Paranoids.Regular-cert", "paranoids.regula", "paranoids-regular", "paranoids.regualr-cert", "PARANOIDS.REGULAR", "regular", "", "my key", "paranoids.regular.not"}
	for i := 0; i < r.Range(0, 4); i++ {
		c := pick(r, near)
		if c == "paranoids.regular.not" {
			c = "some other comment"
		}
		p.PreIDs = append(p.PreIDs, PreID{Kind: pick(r, []string{"plain", "cert", "ysshcert"}), Label: fmt.Sprintf("pre%d", i), Comment: c})
	}
	if r.Bool(0.25) {
		p.KeyLabel = pick(r, []string{"work", "my certs", "regular", "paranoids.regular", "Paranoids", "x"})
	}
	p.ReuseHandlers = r.Bool(0.2)
	n := r.Range(1, maxRuns)
	if maxRuns >= 2 && (r.Bool(0.08) || odd && r.Bool(0.12)) {
		p.Overlap, p.OverlapAt, p.ReuseHandlers = true, r.Intn(5), false
		n = max(n, 2)
	}
	for i := 0; i < n; i++ {
		run := genRun(r, p, r.Bool(faultRate), odd)
		if lookalike != "" && r.Bool(0.5) {
			run.LogName = lookalike
		}
		if i > 0 && r.Bool(0.15) {
			run.DirChange = pick(r, []string{"rotate", "rotate", "delete", "register", "add_pub_alt"})
		}
		if p.Overlap && i < 2 {
			// the overlapping pair: two honest requests, preferably of different users
			run = genRun(r, p, false, odd)
			run.DirChange, run.AdvanceS = "", 0
			if i == 1 && len(p.Users) > 1 {
				run.LogName = p.Users[1].Name
			}
			if i == 1 && r.Bool(0.4) {
				run.LogName = p.Runs[0].LogName
				p.OverlapBNoKey = true
			}
		}
		p.Runs = append(p.Runs, run)
	}
	return p
}

func shrinkG(raw json.RawMessage) []json.RawMessage {
	var p GPlan
	if json.Unmarshal(raw, &p) != nil {
		return nil
	}
	var out []json.RawMessage
	emit := func(q GPlan) { b, _ := json.Marshal(q); out = append(out, b) }
	clone := func() GPlan {
		var q GPlan
		json.Unmarshal(raw, &q)
		return q
	}
	for _, rg := range sim.DropEach(len(p.Runs)) {
		q := clone()
		q.Runs = append(append([]GRun(nil), p.Runs[:rg[0]]...), p.Runs[rg[1]:]...)
		if len(q.Runs) > 0 {
			emit(q)
		}
	}
	if len(p.PreIDs) > 0 {
		q := clone()
		q.PreIDs = nil
		emit(q)
	}
	for i := range p.Runs {
		run := p.Runs[i]
		if len(run.Faults) > 0 {
			q := clone()
			q.Runs[i].Faults = nil
			emit(q)
		}
		if len(run.Handlers) > 1 {
			for j := range run.Handlers {
				q := clone()
				q.Runs[i].Handlers = append(append([]string(nil), run.Handlers[:j]...), run.Handlers[j+1:]...)
				emit(q)
			}
		}
		if run.DirChange != "" {
			q := clone()
			q.Runs[i].DirChange = ""
			emit(q)
		}
		if run.AdvanceS != 0 {
			q := clone()
			q.Runs[i].AdvanceS = 0
			emit(q)
		}
		if run.Agent != "honest" {
			q := clone()
			q.Runs[i].Agent = "honest"
			emit(q)
		}
		if run.CA.Mode != "ok" {
			q := clone()
			q.Runs[i].CA.Mode = "ok"
			emit(q)
		}
		if run.CA.NCerts != 1 {
			q := clone()
			q.Runs[i].CA.NCerts = 1
			emit(q)
		}
		if len(run.CA.Comments) > 0 {
			q := clone()
			q.Runs[i].CA.Comments = nil
			emit(q)
		}
		if run.StubPanic != "" {
			q := clone()
			q.Runs[i].StubPanic = ""
			emit(q)
		}
		if run.ReqHost != "host.example.com" || run.ReqUser != run.LogName || run.IP != "1.2.3.4" {
			q := clone()
			q.Runs[i].ReqHost, q.Runs[i].ReqUser, q.Runs[i].IP = "host.example.com", run.LogName, "1.2.3.4"
			emit(q)
		}
		if run.Legacy {
			q := clone()
			q.Runs[i].Legacy = false
			emit(q)
		}
	}
	if len(p.Users) > 1 {
		for j := 1; j < len(p.Users); j++ {
			used := false
			for _, run := range p.Runs {
				if run.LogName == p.Users[j].Name {
					used = true
				}
			}
			if !used {
				q := clone()
				q.Users = append(append([]GUser(nil), p.Users[:j]...), p.Users[j+1:]...)
				emit(q)
			}
		}
	}
	return out
}
