// Package sim holds the simulator core shared by all worlds: the PRNG that
// every choice derives from, the worker loop (explore / replay / minimise),
// statistics and evidence records.
package sim

import (
	"encoding/binary"
	"hash/fnv"
)

// Rng is xoshiro256** seeded through splitmix64. It is the only source of
// choices in the harness: no math/rand globals, no clock.
type Rng struct{ s [4]uint64 }

func splitmix(x *uint64) uint64 {
	*x += 0x9e3779b97f4a7c15
	z := *x
	z = (z ^ (z >> 30)) * 0xbf58476d1ce4e5b9
	z = (z ^ (z >> 27)) * 0x94d049bb133111eb
	return z ^ (z >> 31)
}

// NewRng returns a generator for the given seed.
func NewRng(seed uint64) *Rng {
	r := &Rng{}
	x := seed
	for i := range r.s {
		r.s[i] = splitmix(&x)
	}
	return r
}

// Mix derives a sub-seed from a seed and labels (worker index, run index...).
func Mix(seed uint64, parts ...uint64) uint64 {
	x := seed
	out := splitmix(&x)
	for _, p := range parts {
		x ^= p * 0x9e3779b97f4a7c15
		out ^= splitmix(&x)
	}
	return out
}

// MixS derives a sub-seed from a string label.
func MixS(seed uint64, label string) uint64 {
	h := fnv.New64a()
	h.Write([]byte(label))
	return Mix(seed, h.Sum64())
}

func rotl(x uint64, k uint) uint64 { return (x << k) | (x >> (64 - k)) }

func (r *Rng) Uint64() uint64 {
	s := &r.s
	res := rotl(s[1]*5, 7) * 9
	t := s[1] << 17
	s[2] ^= s[0]
	s[3] ^= s[1]
	s[1] ^= s[2]
	s[0] ^= s[3]
	s[2] ^= t
	s[3] = rotl(s[3], 45)
	return res
}

// Intn returns a value in [0,n). n<=0 yields 0.
func (r *Rng) Intn(n int) int {
	if n <= 1 {
		return 0
	}
	return int(r.Uint64() % uint64(n))
}

// Range returns a value in [lo,hi].
func (r *Rng) Range(lo, hi int) int {
	if hi <= lo {
		return lo
	}
	return lo + r.Intn(hi-lo+1)
}

func (r *Rng) Float64() float64 { return float64(r.Uint64()>>11) / (1 << 53) }

// Bool is true with probability p.
func (r *Rng) Bool(p float64) bool { return r.Float64() < p }

// Bytes returns n pseudo-random bytes.
func (r *Rng) Bytes(n int) []byte {
	b := make([]byte, n+8)
	for i := 0; i < n; i += 8 {
		binary.LittleEndian.PutUint64(b[i:], r.Uint64())
	}
	return b[:n]
}

// Perm returns a permutation of 0..n-1.
func (r *Rng) Perm(n int) []int {
	p := make([]int, n)
	for i := range p {
		p[i] = i
	}
	for i := n - 1; i > 0; i-- {
		j := r.Intn(i + 1)
		p[i], p[j] = p[j], p[i]
	}
	return p
}

// Pick returns one of the strings.
func (r *Rng) Pick(xs ...string) string { return xs[r.Intn(len(xs))] }

// Weighted picks an index with probability proportional to w[i].
func (r *Rng) Weighted(w []int) int {
	t := 0
	for _, x := range w {
		t += x
	}
	if t <= 0 {
		return 0
	}
	k := r.Intn(t)
	for i, x := range w {
		if k < x {
			return i
		}
		k -= x
	}
	return len(w) - 1
}
