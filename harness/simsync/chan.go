package simsync

import "verifsim/sched"

// Channel operations of the code under test (rewritten by cmd/overlaygen). The operation itself stays the real one, on
// the real channel; around it the task gives the token back and asks for it again (sched/real.go), so that a task parked
// in the Go runtime never holds the token and the scheduler decides who runs after the operation completed.

// ChanHandle is what ChanBegin returns and ChanEnd takes.
type ChanHandle struct {
	s *sched.Sched
	t *sched.Task
}

// ChanBegin is called right before a channel operation that may block (a send, a receive, a select without default).
func ChanBegin() ChanHandle {
	s := sched.Active()
	if s == nil {
		return ChanHandle{}
	}
	return ChanHandle{s, s.EnterReal("chan-op")}
}

// ChanEnd is called right after the operation completed.
func ChanEnd(h ChanHandle) {
	// (not through sched.Active: the task has no token at this point, which is what it waits for here)
	if h.t != nil {
		h.s.ExitReal(h.t)
	}
}

// ChanGuard is deferred by rewritten functions whose select statements have send cases: when such a send panics
// (closed channel) the unwinding code under test must not run without the token.
func ChanGuard(h *ChanHandle) {
	if h != nil && h.t != nil {
		t := h.t
		h.t = nil
		if h.s.InReal(t) {
			h.s.ExitReal(t)
		}
	}
}

// ChanSend stands for `c <- v`.
func ChanSend[T any](c chan<- T, v T) {
	h := ChanBegin()
	defer ChanEnd(h)
	c <- v
}

// ChanRecv stands for `<-c`.
func ChanRecv[T any](c <-chan T) T {
	h := ChanBegin()
	defer ChanEnd(h)
	return <-c
}

// ChanRecv2 stands for `v, ok := <-c`.
func ChanRecv2[T any](c <-chan T) (T, bool) {
	h := ChanBegin()
	defer ChanEnd(h)
	v, ok := <-c
	return v, ok
}
