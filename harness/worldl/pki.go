// Package worldl is the CA link world: the real crypki.Signer (gRPC client,
// TLS credentials, retry interceptor, back-off) talking to 0..4 simulated CA
// endpoints - real grpc.Server + real crypto/tls on in-memory listeners -
// inside a bubble, so per-try timeouts and back-off run on the simulated clock.
package worldl

import (
	"crypto/ecdsa"
	"crypto/rand"
	"crypto/tls"
	"crypto/x509"
	"crypto/x509/pkix"
	"encoding/pem"
	"fmt"
	"math/big"
	"net"
	"time"

	"verifsim/keys"
)

var (
	longBefore = time.Date(1999, 1, 1, 0, 0, 0, 0, time.UTC)
	longAfter  = time.Date(2100, 1, 1, 0, 0, 0, 0, time.UTC)
)

type ca struct {
	label string
	key   *ecdsa.PrivateKey
	cert  *x509.Certificate
	der   []byte
}

func newCA(label string) *ca {
	k := keys.EC(256, "ca:"+label)
	tmpl := &x509.Certificate{
		SerialNumber: big.NewInt(int64(len(label)) + 1000), Subject: pkix.Name{CommonName: "verif CA " + label},
		NotBefore: longBefore, NotAfter: longAfter, IsCA: true, BasicConstraintsValid: true,
		KeyUsage: x509.KeyUsageCertSign | x509.KeyUsageDigitalSignature,
	}
	der, err := x509.CreateCertificate(rand.Reader, tmpl, tmpl, k.Public(), k)
	if err != nil {
		panic(err)
	}
	c, _ := x509.ParseCertificate(der)
	return &ca{label: label, key: k, cert: c, der: der}
}

// newIntermediate creates a CA certificate issued by parent.
func newIntermediate(parent *ca, label string) *ca {
	k := keys.EC(256, "ca:"+label)
	tmpl := &x509.Certificate{
		SerialNumber: big.NewInt(int64(len(label)) + 2000), Subject: pkix.Name{CommonName: "verif CA " + label},
		NotBefore: longBefore, NotAfter: longAfter, IsCA: true, BasicConstraintsValid: true,
		KeyUsage: x509.KeyUsageCertSign | x509.KeyUsageDigitalSignature,
	}
	der, err := x509.CreateCertificate(rand.Reader, tmpl, parent.cert, k.Public(), parent.key)
	if err != nil {
		panic(err)
	}
	c, _ := x509.ParseCertificate(der)
	return &ca{label: label, key: k, cert: c, der: der}
}

func (c *ca) pem() []byte { return pem.EncodeToMemory(&pem.Block{Type: "CERTIFICATE", Bytes: c.der}) }

// issue creates a leaf certificate. issuer nil: self-signed.
func issue(issuer *ca, keyLabel string, names []string, nb, na time.Time, client bool) tls.Certificate {
	k := keys.EC(256, "leaf:"+keyLabel)
	tmpl := &x509.Certificate{
		SerialNumber: big.NewInt(int64(len(keyLabel))*7 + 17), Subject: pkix.Name{CommonName: keyLabel},
		NotBefore: nb, NotAfter: na, KeyUsage: x509.KeyUsageDigitalSignature,
		ExtKeyUsage: []x509.ExtKeyUsage{x509.ExtKeyUsageServerAuth},
	}
	if client {
		tmpl.ExtKeyUsage = []x509.ExtKeyUsage{x509.ExtKeyUsageClientAuth}
	}
	for _, n := range names {
		if ip := net.ParseIP(n); ip != nil {
			tmpl.IPAddresses = append(tmpl.IPAddresses, ip)
		} else {
			tmpl.DNSNames = append(tmpl.DNSNames, n)
		}
	}
	parent, signer := tmpl, k
	if issuer != nil {
		parent, signer = issuer.cert, issuer.key
	}
	der, err := x509.CreateCertificate(rand.Reader, tmpl, parent, k.Public(), signer)
	if err != nil {
		panic(fmt.Sprintf("issue %s: %v", keyLabel, err))
	}
	leaf, _ := x509.ParseCertificate(der)
	return tls.Certificate{Certificate: [][]byte{der}, PrivateKey: k, Leaf: leaf}
}

func keyPEM(c tls.Certificate) []byte {
	der, err := x509.MarshalECPrivateKey(c.PrivateKey.(*ecdsa.PrivateKey))
	if err != nil {
		panic(err)
	}
	return pem.EncodeToMemory(&pem.Block{Type: "EC PRIVATE KEY", Bytes: der})
}

func certPEM(c tls.Certificate) []byte {
	var out []byte
	for _, der := range c.Certificate {
		out = append(out, pem.EncodeToMemory(&pem.Block{Type: "CERTIFICATE", Bytes: der})...)
	}
	return out
}
