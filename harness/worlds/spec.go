package worlds

import "verifsim/sim"

// Specs of the sequential shim world.
var Specs = []*sim.Spec{
	{Property: "C07", World: "S", Generate: genS("C07"), Execute: execS, Shrink: shrinkS},
	{Property: "C08", World: "S", Generate: genS("C08"), Execute: execS, Shrink: shrinkS},
	{Property: "C09", World: "S", Generate: genS("C09"), Execute: execS, Shrink: shrinkS},
	{Property: "C10", World: "S", Generate: genS("C10"), Execute: execS, Shrink: shrinkS},
}
