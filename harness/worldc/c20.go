package worldc

import (
	"encoding/json"
	"fmt"
	"os"
	"runtime/debug"
	"sort"
	"strings"
	"testing"

	"github.com/theparanoids/ysshra/agent/shimagent"
	"github.com/theparanoids/ysshra/agent/yubiagent"

	"verifsim/refagent"
	"verifsim/sched"
	"verifsim/schedconn"
	"verifsim/sim"
	"verifsim/simsync"
	"verifsim/simtime"
)

// C20Op is one client operation: wait for a code, or send a request with a code.
type C20Op struct {
	Op   string `json:"op"` // wait | req
	Code int    `json:"code"`
}

// C20Plan is one wait/broadcast world.
type C20Plan struct {
	// EagerTimers: timers of the code under test may fire at any moment after their creation; otherwise they fire
	// only when nothing else can run (time passes while everybody waits)
	EagerTimers bool      `json:"eager_timers,omitempty"`
	Conns       [][]C20Op `json:"conns"`  // one client connection each (full stack: yubiagent client -> ServeAgent)
	Direct      []int     `json:"direct"` // codes waited for by direct Server.Wait callers
	// Sibling: codes of requests sent over a connection to ANOTHER agent of the same process (its own shim, its
	// own underlying agent): they are not requests received by the agent the waiters wait on
	Sibling []int `json:"sibling,omitempty"`
	// Local: the served agent is a local-mode server (slot operations allowed; the tool path is a file that does not exist)
	Local bool `json:"local,omitempty"`
	// Late: which reads of a client from its connection, made under a read deadline that the client code armed
	// itself and finding nothing yet, time out (the server is allowed to take as long as it needs)
	Late     []int          `json:"late,omitempty"`
	Strategy sched.Strategy `json:"strategy"`
}

func genC20(r *sim.Rng, tier string) any {
	p := &C20Plan{}
	// a few codes so that waiters and requests meet; plus codes around the table boundary
	codes := []int{11, 13, 17, 19, 22, 23, 22, 27, 32, 34, 35, 2, 0, 39, 40, 41, 100, 255, r.Intn(256)}
	hot := []int{codes[r.Intn(13)], codes[r.Intn(13)]}
	pickCode := func() int {
		if r.Bool(0.6) {
			return hot[r.Intn(2)]
		}
		return codes[r.Intn(len(codes))]
	}
	nw := r.Range(1, 8)
	waiters := 0
	nconn := r.Range(2, 8)
	for c := 0; c < nconn; c++ {
		var ops []C20Op
		for i := 0; i < r.Range(1, 4); i++ {
			if waiters < nw && r.Bool(0.45) {
				ops = append(ops, C20Op{Op: "wait", Code: pickCode()})
				waiters++
			} else {
				code := pickCode()
				if code == 31 {
					code = 30 // a malformed add-hardware-certificate frame ends the connection; C12 covers it
				}
				if code == 35 {
					ops = append(ops, C20Op{Op: "wait", Code: pickCode()})
					waiters++
				} else if (code == 22 || code == 23) && r.Bool(0.6) {
					// a well-formed lock / unlock: the agent's lock state must not change how waiting works
					ops = append(ops, C20Op{Op: map[int]string{22: "lock", 23: "unlock"}[code], Code: code})
				} else {
					ops = append(ops, C20Op{Op: "req", Code: code})
				}
			}
		}
		p.Conns = append(p.Conns, ops)
	}
	for i := 0; i < r.Range(0, 2) && waiters < 8; i++ {
		p.Direct = append(p.Direct, pickCode())
		waiters++
	}
	if r.Bool(0.3) {
		for i := 0; i < r.Range(1, 4); i++ {
			code := pickCode()
			if code == 31 || code == 35 {
				code = hot[0]
			}
			if code == 31 || code == 35 {
				code = 11
			}
			p.Sibling = append(p.Sibling, code)
		}
	}
	p.Local = r.Bool(0.3)
	if r.Bool(0.3) {
		for i := 0; i < r.Range(1, 3); i++ {
			p.Late = append(p.Late, r.Intn(6))
		}
	}
	total := len(p.Sibling)
	for _, c := range p.Conns {
		total += len(c)
	}
	p.EagerTimers = r.Bool(0.4)
	p.Strategy = sched.Strategy{Kind: pick(r, []string{"random", "random", "pct", "rr"}), Seed: r.Uint64(), D: r.Range(1, 3), Horizon: 40 * (total + len(p.Direct))}
	return p
}

func shrinkC20(raw json.RawMessage) []json.RawMessage {
	var p C20Plan
	if json.Unmarshal(raw, &p) != nil {
		return nil
	}
	var out []json.RawMessage
	clone := func() C20Plan {
		var q C20Plan
		json.Unmarshal(raw, &q)
		q.Strategy.Choices = nil
		return q
	}
	emit := func(q C20Plan) { b, _ := json.Marshal(q); out = append(out, b) }
	for i := range p.Conns {
		if len(p.Conns) > 1 {
			q := clone()
			q.Conns = append(append([][]C20Op(nil), p.Conns[:i]...), p.Conns[i+1:]...)
			emit(q)
		}
	}
	for i := range p.Conns {
		for j := range p.Conns[i] {
			if len(p.Conns[i]) > 1 {
				q := clone()
				q.Conns[i] = append(append([]C20Op(nil), p.Conns[i][:j]...), p.Conns[i][j+1:]...)
				emit(q)
			}
		}
	}
	for i := range p.Direct {
		q := clone()
		q.Direct = append(append([]int(nil), p.Direct[:i]...), p.Direct[i+1:]...)
		emit(q)
	}
	for i := range p.Sibling {
		q := clone()
		q.Sibling = append(append([]int(nil), p.Sibling[:i]...), p.Sibling[i+1:]...)
		emit(q)
	}
	if n := len(p.Strategy.Choices); n > 0 {
		for _, keep := range []int{n / 2, 3 * n / 4} {
			var q C20Plan
			json.Unmarshal(raw, &q)
			q.Strategy.Choices = append([]int{}, p.Strategy.Choices[:keep]...)
			if len(q.Strategy.Choices) == 0 {
				q.Strategy.Choices = []int{-1}
			}
			emit(q)
		}
	}
	return out
}

// c20state is shared by the tasks of a run; norace accessors only.
type c20state struct {
	waits     []*waitRec
	reqs      []*reqRec
	cleanups  [][3]int // (code, sequence before, sequence after) of every clean-up broadcast of the harness
	finished  bool
	sibling   int // requests answered by the sibling agent
	rounds    int
	missed    []string
	curWait   map[int]*waitRec // task id (the task that would park) -> wait in progress
	panics    []string
	remaining int
}

type waitRec struct {
	who    string
	code   int
	start  int
	parked int // 0: never parked on a condition variable
	// realPark: the latest moment at which the task that executes this wait was found parked in a channel operation
	// (an implementation without condition variables). The latest park before a quiescent point is the one inside
	// the wait itself, i.e. not before the waiter registered; earlier ones may be for other reasons (a frame reader).
	realPark int
	ret      int // 0: never returned
	err      string
	cleanup  int  // sequence number of the harness' clean-up broadcast that released it (0: released by the run itself)
	ownFrame int  // send seq of the wait frame itself (a request with code 35)
	quiesced bool // still parked at a quiescent point of the run
}

type reqRec struct {
	who   string
	code  int
	send  int
	reply int
	own   *waitRec // the wait whose frame this is (code 35), nil for plain requests
	// taken: when the client's call returned, the server side had read the whole request (the service of the
	// connection had not ended before the request arrived)
	taken bool
}

//go:norace
func (c *c20state) addWait(w *waitRec) { c.waits = append(c.waits, w) }

//go:norace
func (c *c20state) addReq(r *reqRec) { c.reqs = append(c.reqs, r) }

//go:norace
func (c *c20state) setCur(task int, w *waitRec) {
	if w == nil {
		delete(c.curWait, task)
	} else {
		c.curWait[task] = w
	}
}

//go:norace
func (c *c20state) parked(task, seq int) {
	if w := c.curWait[task]; w != nil && w.parked == 0 {
		w.parked = seq
	}
}

//go:norace
func (c *c20state) realParked(task, seq int) {
	if w := c.curWait[task]; w != nil && w.ret == 0 {
		w.realPark = seq
	}
}

//go:norace
func (c *c20state) addPanic(s string) { c.panics = append(c.panics, s) }

//go:norace
func (c *c20state) doneOne() { c.remaining-- }

//go:norace
func (c *c20state) siblingReq() { c.sibling++ }

//go:norace
func (c *c20state) left() int { return c.remaining }

//go:norace
func (c *c20state) addCleanup(code, before, after int) {
	c.cleanups = append(c.cleanups, [3]int{code, before, after})
}

// cleanupBetween returns the clean-up broadcast that happened in (from, to), or 0.
//
//go:norace
func (c *c20state) cleanupBetween(code, from, to int) int {
	for _, x := range c.cleanups {
		if x[0] == code && x[1] < to && x[2] > from {
			return x[2]
		}
	}
	return 0
}

// snapshot is taken at a quiescent point (every task blocked: all sent frames have been received and
// dispatched). A waiter that is still parked must not have seen a request with its code after it parked.
//
//go:norace
func (c *c20state) snapshot() {
	for _, w := range c.waits {
		since := w.parked
		if since == 0 {
			since = w.realPark
		}
		if since == 0 || w.ret != 0 || w.code >= 40 {
			continue
		}
		w.quiesced = true
		for _, r := range c.reqs {
			// a request counts as received when it was answered, or when it is a wait frame whose own wait is parked (the
			// server announces a request before it serves it); a request that was sent but never answered may not have
			// been received at all - the service of that connection may have ended before (an upstream failure)
			received := (r.own == nil && r.taken) || (r.own != nil && (r.own.parked != 0 || r.own.realPark != 0))
			if !received {
				continue
			}
			if r.code == w.code && r.own != w && r.send > since {
				c.missed = append(c.missed, fmt.Sprintf("%s waiting for code %d (parked at %d) is still blocked at a quiescent point although %s sent a request with code %d at %d, after it had parked", w.who, w.code, since, r.who, r.code, r.send))
			}
		}
	}
}

//go:norace
func (c *c20state) nextRound() bool {
	if c.finished || c.rounds >= 32 {
		return false
	}
	c.rounds++
	return true
}

//go:norace
func (c *c20state) finish() { c.finished = true }

//go:norace
func (c *c20state) isFinished() bool { return c.finished }

//go:norace
func setf(p *int, v int) { *p = v }

//go:norace
func setb(p *bool, v bool) { *p = v }

func execC20(t *testing.T, raw json.RawMessage) *sim.Outcome {
	o := &sim.Outcome{}
	var p C20Plan
	if err := json.Unmarshal(raw, &p); err != nil {
		o.Fail("harness.plan", "unmarshal", 0, "%v", err)
		return o
	}
	ref := refagent.New()
	s := sched.New(p.Strategy, 40000)
	s.LazyTimers = true // (while the shim is being constructed; the plan's policy applies from then on)
	st := &c20state{curWait: map[int]*waitRec{}, remaining: len(p.Conns) + len(p.Direct)}
	if len(p.Sibling) > 0 {
		st.remaining++
	}
	up, upPeer := schedconn.Pipe("upstream")
	peer := &refagent.Peer{Agent: ref}
	s.Go("upstream", true, func() { peer.Serve(upPeer) })
	simsync.OnCondPark = func(c *simsync.Cond, task *sched.Task) { st.parked(task.ID, s.Stamp()) }
	s.OnRealPark = func(task *sched.Task) { st.realParked(task.ID, s.Stamp()) }
	var wakes []string
	simsync.OnCondWake = func(c *simsync.Cond, by *sched.Task, woken []*sched.Task) {
		if len(woken) > 0 {
			var names []string
			for _, w := range woken {
				names = append(names, w.Name)
			}
			wakes = appendNorace(wakes, fmt.Sprintf("%s wakes %v on %s at %d", by.Name, names, c.SimName(), s.Stamp()))
		}
	}
	defer func() { simsync.OnCondPark, simsync.OnCondWake = nil, nil }()

	var srv *shimagent.Server
	doneObj := &struct{ n string }{"all-done"}
	cleanGate := &struct{ n string }{"cleanup-gate"}
	var initErr string
	var cleanupTask *sched.Task
	s.OnQuiesce = func() bool {
		if cleanupTask == nil || !st.nextRound() {
			return false
		}
		st.snapshot()
		s.WakeTask(cleanupTask)
		return true
	}
	s.Go("init", false, func() {
		shim, err := shimagent.VerifNewFromConn(up, shimagent.Option{})
		if err != nil {
			initErr = err.Error()
			up.Close()
			return
		}
		srv = shim.(*shimagent.Server)
		defer s.SetLazyTimers(!p.EagerTimers) // (from the end of the set-up on)
		yubi := yubiagent.VerifNewServer(shim, "/nonexistent/yubico-piv-tool", !p.Local)
		for ci := range p.Conns {
			ci := ci
			cc, sc := schedconn.Pipe(fmt.Sprintf("conn%d", ci))
			cc.LateAt = p.Late
			var serverTask *sched.Task
			serverTask = s.Go(fmt.Sprintf("server%d", ci), false, func() {
				defer func() {
					if r := recover(); r != nil {
						st.addPanic(fmt.Sprintf("server task of connection %d panicked: %v @ %s", ci, r, panicSite(debug.Stack())))
						sc.Close()
					}
				}()
				yubiagent.ServeAgent(yubi, sc)
				sc.Close()
			})
			s.Go(fmt.Sprintf("client%d", ci), false, func() {
				cli, err := yubiagent.NewClientFromConn(cc)
				if err != nil {
					st.addPanic("client: " + err.Error())
					return
				}
				for oi, op := range p.Conns[ci] {
					who := fmt.Sprintf("conn %d op %d", ci, oi)
					if op.Op == "wait" {
						w := &waitRec{who: who, code: op.Code}
						setf(&w.start, s.Stamp())
						w.ownFrame = w.start
						st.addWait(w)
						rq := &reqRec{who: who + " (wait frame)", code: 35, own: w}
						rq.send = w.start
						st.addReq(rq)
						st.setCur(serverTask.ID, w)
						err := cli.Wait(byte(op.Code))
						setf(&w.ret, s.Stamp())
						setf(&rq.reply, w.ret)
						st.setCur(serverTask.ID, nil)
						if err != nil {
							w.err = err.Error()
						}
					} else {
						rq := &reqRec{who: who, code: op.Code}
						sent0, _ := cc.Sent()
						nSent0 := len(sent0)
						setf(&rq.send, s.Stamp())
						st.addReq(rq)
						switch op.Op {
						case "lock":
							cli.Lock([]byte("pw"))
						case "unlock":
							cli.Unlock([]byte("pw"))
						default:
							body := []byte{byte(op.Code)}
							if op.Code != 1 && op.Code != 11 && op.Code != 19 && op.Code != 32 {
								body = append(body, []byte("x")...)
							}
							cli.Forward(body) // the reply (or the end of the connection) does not matter here
						}
						setf(&rq.reply, s.Stamp())
						sent1, _ := cc.Sent()
						whole := len(sent1)-nSent0 >= 4 && len(sent1)-nSent0 == 4+int(uint32(sent1[nSent0])<<24|uint32(sent1[nSent0+1])<<16|uint32(sent1[nSent0+2])<<8|uint32(sent1[nSent0+3]))
						setb(&rq.taken, whole && cc.PendingOut() == 0) // (the whole frame was written and read)
					}
				}
				cc.Close()
				st.doneOne()
				s.Wake(doneObj)
			})
		}
		for di, code := range p.Direct {
			di, code := di, code
			var self *sched.Task
			self = s.Go(fmt.Sprintf("direct%d", di), false, func() {
				w := &waitRec{who: fmt.Sprintf("direct waiter %d", di), code: code}
				setf(&w.start, s.Stamp())
				st.addWait(w)
				st.setCur(self.ID, w)
				func() {
					defer func() {
						if r := recover(); r != nil {
							st.addPanic(fmt.Sprintf("Server.Wait(%d) panicked: %v", code, r))
						}
					}()
					if err := srv.Wait(byte(code)); err != nil {
						w.err = err.Error()
					}
				}()
				setf(&w.ret, s.Stamp())
				st.setCur(self.ID, nil)
				st.doneOne()
				s.Wake(doneObj)
			})
		}
		if len(p.Sibling) > 0 {
			// a second agent of the same process: own underlying agent, own shim, own served connection
			up2, up2Peer := schedconn.Pipe("sibling-upstream")
			peer2 := &refagent.Peer{Agent: refagent.New()}
			s.Go("sibling-upstream", true, func() { peer2.Serve(up2Peer) })
			shim2, err := shimagent.VerifNewFromConn(up2, shimagent.Option{})
			if err != nil {
				initErr = "sibling agent: " + err.Error()
				up.Close()
				up2.Close()
				return
			}
			yubi2 := yubiagent.VerifNewServer(shim2, "", true)
			cc2, sc2 := schedconn.Pipe("sibling-conn")
			s.Go("sibling-server", false, func() {
				defer func() {
					if r := recover(); r != nil {
						st.addPanic(fmt.Sprintf("server task of the sibling agent panicked: %v @ %s", r, panicSite(debug.Stack())))
					}
					sc2.Close()
				}()
				yubiagent.ServeAgent(yubi2, sc2)
			})
			s.Go("sibling-client", false, func() {
				cli, err := yubiagent.NewClientFromConn(cc2)
				if err == nil {
					for _, code := range p.Sibling {
						body := []byte{byte(code)}
						if code != 1 && code != 11 && code != 19 && code != 32 {
							body = append(body, []byte("x")...)
						}
						cli.Forward(body)
						st.siblingReq()
					}
				}
				cc2.Close()
				up2.Close()
				st.doneOne()
				s.Wake(doneObj)
			})
		}
		cleanupTask = s.Go("cleanup", true, func() {
			// parked until the run is quiescent (every task blocked), then release what is left; repeat
			for {
				s.Wait(cleanGate, "quiesce")
				if st.isFinished() || s.Over() {
					return
				}
				for code := 0; code < 256; code++ {
					before := s.Stamp()
					srv.Broadcast(byte(code))
					if code < 64 {
						st.addCleanup(code, before, s.Stamp())
					}
				}
			}
		})
		s.Go("closer", false, func() {
			for st.left() > 0 {
				s.Wait(doneObj, "join")
			}
			st.finish()
			up.Close()
		})
	})
	spawnedBefore := simsync.Spawned()
	timersBefore := simtime.Fired()
	s.Run()
	timersFired := simtime.Fired() - timersBefore
	chanProbes(o, s, spawnedBefore)
	if os.Getenv("VERIF_DEBUG_TASKS") != "" {
		for _, tk := range s.Tasks() {
			bl, on := tk.IsBlocked()
			fmt.Fprintf(os.Stderr, "task %s daemon=%v done=%v blocked=%v on=%v\n", tk.Name, tk.Daemon, tk.IsDone(), bl, on)
		}
	}
	o.Interleaving = s.OrderHash()
	o.Recorded = mustJSON(c20WithChoices(p, s.Choices))
	if initErr != "" {
		o.Fail("harness.init", "shim_construct", 0, "%s", initErr)
		return o
	}
	if s.Aborted() {
		what := "deadlock"
		if s.StepCap {
			what = "step_cap"
		}
		o.Fatal = true
		if s.TimeStall {
			// tasks wait in channel operations that only a real timer or deadline of the code under test could still
			// complete: no verdict about completion - but a waiter that a matching request should have released and
			// that is still parked was recorded at the quiescent point before
			for _, m := range st.missed {
				o.Fail("C20.released", "missed_wakeup", 0, "%s", m)
			}
			o.Probe("run_left_waiting_for_real_time")
			o.Signature = "aborted:time_stall"
			return o
		}
		o.Fail("C20.completes", what, 0, "%s: blocked: %v", what, s.Stuck)
		o.Signature = "aborted:" + what
		return o
	}
	for _, pn := range st.panics {
		o.Fail("C20.no_crash", "panic", 0, "%s", pn)
	}
	// ---- oracle ----
	for _, m := range st.missed {
		o.Fail("C20.released", "missed_wakeup", 0, "%s", m)
	}
	var sig []string
	for _, w := range st.waits {
		if w.ret != 0 {
			from := w.parked
			if from == 0 {
				from = w.start
			}
			w.cleanup = st.cleanupBetween(w.code, from, w.ret)
		}
		desc := fmt.Sprintf("%s waiting for code %d (started %d, parked %d, returned %d, released by clean-up at %d)", w.who, w.code, w.start, w.parked, w.ret, w.cleanup)
		if w.err != "" && timersFired > 0 && (strings.Contains(w.err, "closed") || strings.Contains(w.err, "EOF")) {
			// a timer of the code under test fired in this run (time passed): a connection to the underlying agent that
			// was given up is a legitimate reason for the service of a client connection to end
			o.Probe("wait_ended_with_its_connection_after_a_timer_fired")
			continue
		}
		if w.err != "" {
			o.Fail("C20.wait_error", "wait_error", 0, "%s returned an error: %s", desc, w.err)
			continue
		}
		if w.ret == 0 {
			o.Fail("C20.completes", "wait_never_returned", 0, "%s never returned", desc)
			continue
		}
		if w.code >= 40 {
			if w.parked != 0 {
				o.Fail("C20.unsupported_code", "blocked_on_unsupported", 0, "%s: codes outside the supported range must return immediately", desc)
			} else {
				o.Probe("unsupported_code_immediate")
			}
			sig = append(sig, "unsupported")
			continue
		}
		from := w.parked
		if from == 0 {
			from = w.start
		}
		if w.cleanup == 0 {
			// released during the run: there must be a request with this code that was in flight after the waiter registered
			ok := false
			for _, r := range st.reqs {
				// (a request that the server had not read yet when the client's call returned - a client that gave up on
				// it - may be received at any later moment)
				if r.code == w.code && r.own != w && r.send < w.ret && (r.reply == 0 || r.reply > from || (r.own == nil && !r.taken)) {
					ok = true
				}
			}
			if !ok {
				o.Fail("C20.only_matching", "spurious_release", 0, "%s was released although no request with code %d was received after it registered (requests: %s)", desc, w.code, describeReqs(st.reqs))
			} else {
				o.Probe("released_by_matching_request")
			}
			sig = append(sig, "released")
		} else {
			// released by the harness' own clean-up broadcast: it was waiting without a matching request
			o.Probe("stayed_blocked_without_matching_request")
			if w.parked != 0 || w.realPark != 0 {
				o.Probe("waiter_parked_before_cleanup")
			}
			if w.parked == 0 && w.realPark != 0 {
				o.Probe("waiter_parked_in_a_channel_operation")
			}
			sig = append(sig, "stayed")
		}
	}
	sort.Strings(sig)
	nreq := 0
	for _, r := range st.reqs {
		if r.own == nil {
			nreq++
		}
	}
	o.Signature = fmt.Sprintf("waits=%s|reqs=%d|conns=%d|direct=%d", strings.Join(sig, ","), nreq, len(p.Conns), len(p.Direct))
	o.Logf("cleanup rounds=%d", st.rounds)
	for _, w := range wakes {
		o.Logf("wake: %s", w)
	}
	o.Logf("requests: %s", describeReqs(st.reqs))
	for _, w := range st.waits {
		o.Logf("%s code=%d parked=%v released_in_run=%v", w.who, w.code, w.parked != 0, w.cleanup == 0)
	}
	o.Fault("schedule/" + p.Strategy.Kind)
	for i := 0; i < st.sibling; i++ {
		o.Probe("request_on_another_agent_of_the_process")
	}
	for i := 0; i < s.Switches/100; i++ {
		o.Probe("task_switches_x100")
	}
	return o
}

func describeReqs(rs []*reqRec) string {
	var sb strings.Builder
	for _, r := range rs {
		fmt.Fprintf(&sb, "[%s code=%d send=%d reply=%d] ", r.who, r.code, r.send, r.reply)
	}
	s := sb.String()
	if len(s) > 800 {
		s = s[:800]
	}
	return s
}

func c20WithChoices(p C20Plan, ch []int) C20Plan {
	p.Strategy.Choices = append([]int{}, ch...)
	return p
}

// SpecC20 explores property C20.
var SpecC20 = &sim.Spec{Property: "C20", World: "C", Generate: genC20, Execute: execC20, Shrink: shrinkC20, Isolated: true, PostProcess: racePost("C20")}

//go:norace
func appendNorace(xs []string, x string) []string { return append(xs, x) }
