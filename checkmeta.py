# Descriptive metadata merged into the evidence files by ./check.
RULES = {
    "default": "plans generated from VERIF_SEED; a run is non-trivial when it executed at least one operation beyond set-up; "
               "distinct = distinct behaviour signatures (operation kinds x fault kinds fired x outcome classes)",
    "C01": "one evaluation = one execution of a world plan (1..6 gensign runs on one forwarded agent, each plan executed twice in fresh bubbles for the freshness oracle); "
           "non-trivial = at least one run reached the handlers; distinct = distinct tuples (handler list, agent behaviour, key-directory state, namespace policy, hard-key flag, result kind, faults fired with phase, CA script) over the run history",
    "C02": "as C01, generator biased towards odd strings (JSON metacharacters, non-ASCII, spaces, IPv6) and key-identifier spellings; every signing request seen by the scripted CA is checked",
    "C03": "as C01 with more faults and longer histories; distinct = distinct run-history signatures",
    "C04": "one evaluation = one execution of gensign.Run with exactly one injected fault (or the fault-free reference); per seeded scenario ALL placements are enumerated: every agent request index x 10 reply/connection faults (one of them a refusal that is repeated whenever the same request comes again), every signer call x {error, panic}, every stub-handler method x panic; "
           "distinct = distinct (handler list, request kind, phase, fault, result kind) tuples plus scenario signatures",
    "C12": "one evaluation = one simulated connection served by yubiagent.ServeAgent (stream of 1..9 frames from the frame grammar, chunking, EOF / read error / write error positions); "
           "non-trivial = every run (at least one frame is sent); distinct = distinct (stack, per-frame kind/class/reply count, error, panic) signatures",
}
RULES.update({
    "C06": "one evaluation = one world (PKI + crafted slot certificate) attested at 1..3 simulated instants; non-trivial = mutation applicable to the key size; distinct = distinct (key bits, chain, window, chain-ok, hash, label, variant, mutation, verdict) tuples",
    "C07": "one evaluation = one sequential history of 10..42 steps on a fresh shim in a fresh bubble; distinct = distinct sequences of (mode, operation, outcome class, faulted) - i.e. distinct histories by behaviour",
    "C08": "as C07 with lock/unlock dense histories and upstream refusals",
    "C09": "one evaluation = one history on one shim; every plan is executed in both upstream modes (2 evaluations) and the listings compared",
    "C10": "as C07 with hardware certificates, raw relays and upstream faults; construction-failure scenarios through shimagent.New count as one evaluation each",
    "C13": "one evaluation = one client session of 2..14 operations over the chunked transport; distinct = distinct sequences of (operation, outcome, scripted failure) plus slot mode",
    "C17": "one evaluation = one Sign call against a simulated endpoint set (plus 2..8 direct back-off evaluations); distinct = distinct tuples of per-endpoint (class, identity, TLS range, client-auth policy, dial behaviour, first reply) and result",
    "C18": "as C17, generator biased to impostor identities",
})
COMPONENTS = {
    "worldg": {"real": ["gensign.Run", "gensign/regular handler", "csr.NewReqParam", "config.NewGensignConfig", "message", "keyid", "agent/ssh AgentKey", "sshutils/key",
                        "x/crypto ssh + ssh/agent client and protocol server", "os file system (key directory, config file)", "crypto/rand entropy"],
               "stub": ["forwarded ssh-agent = reference agent model behind a scripted peer", "CA = scripted csr.Signer minting real SSH certificates", "extra handlers = stub gensign.Handler", "clock = testing/synctest bubble", "a second request of the same process served in a sibling world while the first waits for its agent"]},
    "worldw": {"real": ["yubiagent.ServeAgent", "yubiagent client", "yubiagent *server (hook)", "shimagent.Server (full stack)", "x/crypto ssh/agent protocol server and client", "agent/utils PEM parsing"],
               "stub": ["byte-stream transport = scripted reader/writer or chunked in-memory duplex", "served agent = recording stub YubiAgent (stub stack)", "upstream ssh-agent = reference agent model (full stack)", "PIV tool = stub executable written by the harness"]},
}
RULES.update({
    "C11": "one evaluation = one scheduled run (a plan: agent content, per-task operation lists, strategy and seed); distinct = distinct multisets of (task, operation, outcome); distinct_interleavings = distinct hashes of the order of lock acquisitions and transport reads/writes",
    "C20": "one evaluation = one scheduled run (connections with wait / request operations, direct waiters, strategy and seed); distinct = distinct (sorted waiter fates, number of requests, connections, direct waiters)",
})
COMPONENTS.update({
    "worldc": {"real": ["shimagent.Server (build overlay made from type-checked syntax trees: sync / time / context replaced by scheduler-aware stand-ins, go statements become scheduler tasks, channel operations that may block - send, receive, select without default, range - stay real operations on real channels but give the token back around them)", "yubiagent.ServeAgent, yubiagent client, concrete server (hook)", "x/crypto ssh/agent client (copy with its mutex replaced)", "Go race detector"],
               "stub": ["scheduler = seeded token scheduler (harness)", "transport = scheduler-aware in-memory duplex", "underlying ssh-agent = reference agent model served by a daemon task", "clock = real but irrelevant: certificate windows are decades away from now on either side"]},
    "worlds": {"real": ["shimagent.Server (via VerifNewFromConn hook; shimagent.New for construction scenarios)", "shimagent filter", "sshutils/cert validation", "keyid.Unmarshal", "x/crypto ssh/agent client"],
               "stub": ["underlying ssh-agent = reference agent model behind a scripted peer (faults per request index; slow honest replies; another client adding identities while a call of the shim is in flight)", "clock = testing/synctest bubble", "transport = in-memory duplex (net.Pipe); unix socket only in construction scenarios"]},
    "worldl": {"real": ["crypki.Signer (Sign, postUserSSHCertificate, NewSignerWithGensignConf)", "tlsutils.TLSClientConfiguration", "internal/backoff", "grpc client + go-grpc-middleware retry", "crypto/tls + crypto/x509 (both sides)", "grpc.Server (endpoints)", "sshutils/key.GetPublicKeysFromBytes"],
               "stub": ["network = context dialer onto in-memory listeners (bufconn) with refuse / stall / latency / cut", "CA handlers = scripted SigningServer", "clock = testing/synctest bubble", "client certificate files (leaf or leaf + intermediate) and CA bundles on a real temp directory", "optional sibling TLS client configuration with another CA bundle in the same process"]},
    "worlda": {"real": ["yubiattest.Attestor.Attest", "yubiattest checkSignature / verifyPKCS1v15", "crypto/x509 chain verification"],
               "stub": ["PKI generated by the harness (two roots, a foreign CA, a foreign CA carrying the first root's name)", "slot certificate signature = EM^d mod N computed by the harness", "clock = testing/synctest bubble"]},
})
ASSUMPTIONS = {
    "worldg": ["ssh.PublicKey.Verify, x/crypto agent wire codec and encoding/json are trusted", "entropy is real: key bytes and challenges differ between a run and its replay; oracles use roles and equality classes only",
               "key directory lives on a real file system: states are set, I/O errors are not injected", "built with go1.26.8 (testing/synctest), /repo declares go 1.23"],
    "worldw": ["x/crypto wire codec trusted for the expected-reply computation of standard requests", "the stub PIV tool is a real child process and is not schedulable: parallel slot operations overlap because the tool sleeps 150 ms of real time (a missed overlap loses a detection, never raises an alarm)",
               "the clock of a synctest bubble stops when its root function returns: the root waits past slow calls so that late actions are observed"],
}
ASSUMPTIONS.update({
    "worldc": ["the Go race detector and porcupine are trusted", "the token scheduler is invisible to the race detector (raw pipe syscalls in //go:norace code); tasks are joined through one WaitGroup before results are read",
               "Go map iteration order inside the code under test is not controlled: a replay may need more than one attempt (the driver retries 3 times)",
               "a select of the code under test with several ready cases is decided by the Go runtime; tickers, re-armed timers and context deadlines of the code under test run in real time (a run that can only go on when one of them fires is never judged a deadlock)",
               "settling (is every task inside a channel operation parked or through?) relies on the run-queue and P-state counters of go1.26 runtime/metrics, with goroutine wait states from runtime.Stack as a fallback"],
    "worlds": ["the reference agent is the specification of the underlying ssh-agent", "x/crypto agent client wire codec trusted", "Go map iteration order inside the shim is not controlled (affects the order of upstream removals only)"],
    "worldl": ["gRPC, crypto/tls, crypto/x509 trusted", "crypki.NewSigner runs outside the bubble; client certificates are valid 1999-2100 so that they are valid in real and simulated time"],
    "worlda": ["crypto/x509 chain verification and math/big trusted", "RSA keys come from a committed pool (1024, 1536, 2048, 3072, 4096 bits; tagged entries with public exponent 3 / 17 / 257 and with 5120 / 8192-bit moduli)"],
})
MUST_PROBE = {
    "C11": ["linearizable", "transport_disciplined", "runs_with_lock_contention", "purge_during_concurrent_run"],
    "C20": ["released_by_matching_request", "stayed_blocked_without_matching_request", "unsupported_code_immediate", "waiter_parked_before_cleanup", "request_on_another_agent_of_the_process"],
    "C06": ["accepted_valid_null", "accepted_valid_nonull", "rejected_by_chain_or_clock", "rejected_by_signature", "genuine_device_attested_first_on_same_attestor", "accepted_valid_special_key"],
    "C07": ["listing_agrees", "purged_sign_refused", "hardcert_accepted", "op_under_fault"],
    "C08": ["locked_list_empty", "locked_op_refused", "unlocked_with_passphrase", "wrong_passphrase_refused"],
    "C09": ["differential_hidden_some", "hidden_sign_refused"],
    "C10": ["hardcert_accepted", "hardcert_refused", "sign_with_hardware_cert", "forward_relayed", "earlier_replies_intact_after_later_calls", "op_under_fault", "construct_failure_reported", "slow_reply/raw", "upstream_failure_surfaced"],
    "C13": ["op_agrees", "served_failure", "slots_agree", "remote_slot_op", "short_slot_line", "signed_through_client_signer", "kept_key_intact_after_later_requests", "slot_operations_in_parallel"],
    "C17": ["signed", "failover_used", "all_endpoints_fail", "retry_backoff_seen", "backoff_in_bounds", "endpoint_reachable_again_in_later_call"],
    "C18": ["signed", "impostor_before_genuine", "client_cert_presented", "client_chain_presented", "impostor_from_ca_of_another_tls_client"],
    "C01": ["proof_ok", "all_rejected", "regular_success"],
    "C02": ["regular_success", "unconfigured_algo", "request_served_by_handler_of_earlier_request", "two_requests_in_one_process_at_the_same_time"],
    "C03": ["regular_success", "regeneration", "cert_signs", "failure_with_old_certs"],
    "C04": ["placement_fired"],
    "C12": ["clean_eof", "oversize_reached", "large_frame_answered"],
}
