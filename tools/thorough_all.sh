#!/bin/bash
# development aid: thorough tier over all properties, one after the other
cd "$(dirname "$0")/.."
for p in ${PROPS:-C01 C02 C03 C04 C06 C07 C08 C09 C10 C11 C12 C13 C17 C18 C20}; do
  VERIF_TIER=thorough ./check $p > /tmp/th-$p.out 2> /tmp/th-$p.err
  echo "$p exit=$? $(cat /tmp/th-$p.out | cut -c1-300) | $(tail -1 /tmp/th-$p.err | cut -c1-120)"
done
