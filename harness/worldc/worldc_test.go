package worldc

import (
	"testing"

	"verifsim/sim"
)

func TestWorker(t *testing.T) { sim.RunWorker(t, []*sim.Spec{SpecC11, SpecC20}) }
