#!/usr/bin/env python3
"""Regenerates section 14.6 of DESIGN.md from /verif/seeded/*/meta.json (development aid)."""
import json, glob, os, re
V = os.path.dirname(os.path.dirname(os.path.abspath(__file__)))
rows = []
ndet = 0
for d in sorted(glob.glob(os.path.join(V, "seeded", "*"))):
    mp = os.path.join(d, "meta.json")
    if not os.path.exists(mp):
        continue
    m = json.load(open(mp))
    caught = []
    for r in m.get("check_results", []):
        mm = re.match(r"(C\d+): (.*)", r)
        if not mm:
            continue
        mo = re.search(r"oracle=(\S+)", mm.group(2))
        if mo:
            caught.append("%s (%s)" % (mm.group(1), mo.group(1)))
        elif "VIOLATION" in mm.group(2):
            caught.append(mm.group(1))
        else:
            caught.append("%s: not detected" % mm.group(1))
    if any("not detected" not in c for c in caught):
        ndet += 1
    ok = all(m.get("confirmed", {}).values())
    rows.append("| `%s` | %s | %s | %s | %s |" % (m["name"], m["breaks_property"], m.get("needs_to_manifest", "").replace("|", "/"),
                                                 "; ".join(caught) or "-", m.get("note", "confirmed" if ok else "NOT confirmed")))
text = ["### 14.6 Independent seeded changes (sub-agents given only the property text and a scratch worktree)", "",
        "Each change was confirmed in a scratch worktree outside /repo and /verif (`tools/seedcheck.sh`: it builds, the",
        "existing suite passes with it, its demonstration fails with it and passes without it) and kept under",
        "`/verif/seeded/<name>/` (patch.diff, demonstration, meta.json). Column *caught by* is the quick check run against",
        "the changed tree and the first failing oracle. %d changes, %d detected." % (len(rows), ndet),
        "All changes of waves 1-10 were run again against the final checks (`seeded/REGRESSION-2026-09-28.txt`: each change at",
        "HEAD - or at its base commit when a later fix: commit touches the same lines - against the first check that had",
        "reported it): 189 of 194 reported again; `C07-K` is silent under C07 at HEAD (fix dfa78b7 closes its signing half; C10",
        "still reports it), `C09-H` is moot after fix 201712a, `C07-D` ended in exit 2 on the loaded machine and is reported",
        "when run alone, `C01-L` and `C18-H` are the two changes the machinery cannot decide.", "",
        "| seeded change | property | what it needs to manifest | caught by | note |", "|---|---|---|---|---|"] + rows + [""]
p = os.path.join(V, "DESIGN.md")
s = open(p).read()
i = s.find("### 14.6 Independent seeded changes")
if i >= 0:
    j = s.find("\n### ", i + 10)
    s = s[:i] + "\n".join(text) + (s[j:] if j >= 0 else "")
else:
    s = s.rstrip("\n") + "\n\n" + "\n".join(text)
open(p, "w").write(s)
print("section 14.6: %d rows" % len(rows))
