// Package shimmodel is the sequential specification of the shim agent over an
// ssh-agent: in-memory hardware certificates, lock flag, upstream mode. It is
// written from the property statements (C07-C11), not from the implementation,
// and it is explicit about what the properties leave undecided: an in-memory
// certificate can be Present, Maybe or absent.
package shimmodel

import (
	"math"
	"sort"
)

// Ident is an identity as the model sees it. Blob and KeyBlob are opaque
// strings (role names or raw bytes); for a plain key KeyBlob == Blob.
type Ident struct {
	Blob    string
	KeyBlob string
	IsCert  bool
	VA, VB  uint64
	YSSHCA  bool // KeyID decodes as a YSSHCA KeyID
	Comment string
	Expiry  int64 // unix seconds at which the agent drops it (0: never)
	NoSign  bool  // listed by the upstream agent, but it cannot sign with it
}

// Validity classes.
const (
	Valid = iota
	Invalid
	Undecided
)

// Validity of a certificate window at unix time now. now == ValidBefore is
// undecided: the properties do not settle it.
func Validity(va, vb uint64, now int64) int {
	if vb > math.MaxInt64 {
		vb = math.MaxInt64
	}
	if va > math.MaxInt64 {
		va = math.MaxInt64
	}
	if int64(va) > now || now > int64(vb) {
		return Invalid
	}
	if now == int64(vb) {
		return Undecided
	}
	return Valid
}

// Membership of an in-memory certificate.
const (
	Present = 1
	Maybe   = 2
)

// MemCert is an in-memory hardware certificate.
type MemCert struct {
	Ident
	State int
}

// State is the whole model state. Treat as a value: Clone before mutating.
type State struct {
	Up       []Ident // upstream identities, insertion order
	UpLocked bool
	UpPass   string
	Mem      []MemCert // sorted by Blob
	Locked   bool
	NoUp     bool
	Closed   bool
}

// Clone returns a deep copy.
func (s State) Clone() State {
	c := s
	c.Up = append([]Ident(nil), s.Up...)
	c.Mem = append([]MemCert(nil), s.Mem...)
	return c
}

func (s *State) expire(now int64) {
	out := s.Up[:0:0]
	for _, id := range s.Up {
		if id.Expiry != 0 && now >= id.Expiry {
			continue
		}
		out = append(out, id)
	}
	s.Up = out
}

func (s *State) upFind(blob string) int {
	for i, id := range s.Up {
		if id.Blob == blob {
			return i
		}
	}
	return -1
}

func (s *State) memFind(blob string) int {
	for i, m := range s.Mem {
		if m.Blob == blob {
			return i
		}
	}
	return -1
}

func (s *State) memDel(i int) { s.Mem = append(s.Mem[:i:i], s.Mem[i+1:]...) }
func (s *State) upDel(i int)  { s.Up = append(s.Up[:i:i], s.Up[i+1:]...) }

// upList is what the upstream reports to a List request.
func (s *State) upList(now int64) []Ident {
	s.expire(now)
	if s.UpLocked {
		return nil
	}
	return s.Up
}

// Purge applies the purging rules of C07 as of time now (what any successful
// List / Signers / Sign must have done before answering).
func (s *State) Purge(now int64) {
	up := s.upList(now)
	if s.UpLocked {
		// the upstream lists nothing and refuses removals: nothing can be purged upstream;
		// in-memory certificates outside their window must still not be shown
		for i := len(s.Mem) - 1; i >= 0; i-- {
			switch Validity(s.Mem[i].VA, s.Mem[i].VB, now) {
			case Invalid:
				// removal needs the upstream to accept a remove request for the in-memory part: the
				// in-memory entry is deleted first, so it is gone
				s.memDel(i)
			case Undecided:
				s.Mem[i].State = Maybe
			}
		}
		return
	}
	if len(up) > 0 {
		plain := map[string]bool{}
		viaCert := map[string]bool{}
		for _, id := range up {
			if id.IsCert {
				viaCert[id.KeyBlob] = true
			} else {
				plain[id.Blob] = true
			}
		}
		for i := len(s.Mem) - 1; i >= 0; i-- {
			k := s.Mem[i].KeyBlob
			switch {
			case plain[k]:
			case viaCert[k]:
				// only a certificate over the key is listed: not decided by the property
				s.Mem[i].State = Maybe
			default:
				s.memDel(i)
			}
		}
	}
	for i := len(s.Up) - 1; i >= 0; i-- {
		id := s.Up[i]
		if !id.IsCert {
			continue
		}
		if Validity(id.VA, id.VB, now) == Invalid {
			if j := s.memFind(id.Blob); j >= 0 {
				s.memDel(j)
			}
			s.upDel(i)
		}
	}
	for i := len(s.Mem) - 1; i >= 0; i-- {
		switch Validity(s.Mem[i].VA, s.Mem[i].VB, now) {
		case Invalid:
			s.memDel(i)
		case Undecided:
			s.Mem[i].State = Maybe
		}
	}
}

// Listing is the model's expectation for a List or Signers answer.
type Listing struct {
	Must []string // blobs that have to be present (multiset, sorted)
	May  []string // blobs that may additionally be present
}

// List computes the expected listing at time now, after purging. ok=false when
// the shim is locked (List answers empty, Signers fails).
func (s *State) List(now int64) (Listing, bool) {
	if s.Locked {
		return Listing{}, false
	}
	s.Purge(now)
	var l Listing
	for _, m := range s.Mem {
		if m.State == Present {
			l.Must = append(l.Must, m.Blob)
		} else {
			l.May = append(l.May, m.Blob)
		}
	}
	for _, id := range s.upList(now) {
		if id.IsCert && s.NoUp && id.YSSHCA {
			continue
		}
		if id.IsCert && Validity(id.VA, id.VB, now) == Undecided {
			l.May = append(l.May, id.Blob)
			continue
		}
		l.Must = append(l.Must, id.Blob)
	}
	sort.Strings(l.Must)
	sort.Strings(l.May)
	return l, true
}

// Outcome of an operation: OK, Err or Either (not decided).
const (
	OK = iota
	Err
	Either
)

// Sign returns the expected outcome of signing with blob at time now, the key
// blob under which a produced signature has to verify, and the reason of a
// refusal (locked, hidden, purged, unknown).
func (s *State) Sign(blob string, isCert, ysshca bool, now int64) (int, string, string) {
	if s.Locked || s.Closed {
		return Err, "", "locked"
	}
	wasMem := s.memFind(blob) >= 0
	wasUp := s.upFind(blob) >= 0
	s.Purge(now)
	out, kb := s.sign(blob, isCert, ysshca, now)
	reason := ""
	if out == Err {
		switch {
		case isCert && s.NoUp && ysshca && s.memFind(blob) < 0:
			reason = "hidden"
		case (wasMem && s.memFind(blob) < 0) || (wasUp && s.upFind(blob) < 0):
			reason = "purged"
		default:
			reason = "unknown"
		}
	}
	return out, kb, reason
}

func (s *State) sign(blob string, isCert, ysshca bool, now int64) (int, string) {
	if i := s.memFind(blob); i >= 0 {
		m := s.Mem[i]
		j := s.upFind(m.KeyBlob)
		has := j >= 0 && !s.UpLocked && !s.Up[j].NoSign
		switch {
		case !has && m.State == Present:
			return Err, ""
		case !has:
			return Either, m.KeyBlob
		case m.State == Maybe:
			return Either, m.KeyBlob
		}
		return OK, m.KeyBlob
	}
	if isCert && s.NoUp && ysshca {
		return Err, ""
	}
	if s.UpLocked {
		return Err, ""
	}
	j := s.upFind(blob)
	if j < 0 {
		return Err, ""
	}
	id := s.Up[j]
	if id.NoSign {
		return Err, ""
	}
	if id.IsCert && Validity(id.VA, id.VB, now) == Undecided {
		return Either, id.KeyBlob
	}
	return OK, id.KeyBlob
}

// Add applies an Add of the identity.
func (s *State) Add(id Ident, now int64) int {
	if s.Locked || s.Closed || s.UpLocked {
		return Err
	}
	s.expire(now)
	if i := s.upFind(id.Blob); i >= 0 {
		s.Up[i] = id
	} else {
		s.Up = append(s.Up, id)
	}
	return OK
}

// AddHard applies AddHardCert.
func (s *State) AddHard(c Ident, now int64) int {
	if s.Locked || s.Closed {
		return Err
	}
	if i := s.memFind(c.Blob); i >= 0 {
		if s.Mem[i].State == Maybe {
			return Either
		}
		return OK // adding again is a no-op
	}
	if !c.IsCert {
		return Err
	}
	plain, viaCert := false, false
	for _, id := range s.upList(now) {
		if !id.IsCert && id.Blob == c.KeyBlob {
			plain = true
		}
		if id.IsCert && id.KeyBlob == c.KeyBlob {
			viaCert = true
		}
	}
	switch {
	case plain:
		s.Mem = append(s.Mem, MemCert{Ident: c, State: Present})
		sort.Slice(s.Mem, func(i, j int) bool { return s.Mem[i].Blob < s.Mem[j].Blob })
		return OK
	case viaCert:
		// only a certificate over the key is listed: undecided, the model keeps it as Maybe
		s.Mem = append(s.Mem, MemCert{Ident: c, State: Maybe})
		sort.Slice(s.Mem, func(i, j int) bool { return s.Mem[i].Blob < s.Mem[j].Blob })
		return Either
	}
	return Err
}

// ViaCertOnly reports whether AddHardCert of c would meet the case the property leaves open: the upstream lists a
// certificate over c's key but not the key itself (and c is new to the shim, which is not locked).
func (s *State) ViaCertOnly(c Ident, now int64) bool {
	if s.Locked || s.Closed || !c.IsCert || s.memFind(c.Blob) >= 0 {
		return false
	}
	plain, viaCert := false, false
	for _, id := range s.upList(now) {
		if !id.IsCert && id.Blob == c.KeyBlob {
			plain = true
		}
		if id.IsCert && id.KeyBlob == c.KeyBlob {
			viaCert = true
		}
	}
	return viaCert && !plain
}

// Remove applies Remove(blob).
func (s *State) Remove(blob string, now int64) int {
	if s.Locked || s.Closed {
		return Err
	}
	s.expire(now)
	res := Err
	if i := s.memFind(blob); i >= 0 {
		if s.Mem[i].State == Maybe {
			res = Either
		} else {
			res = OK
		}
		s.memDel(i)
	}
	if !s.UpLocked {
		if j := s.upFind(blob); j >= 0 {
			s.upDel(j)
			res = OK
		}
	}
	return res
}

// RemoveAll applies RemoveAll.
func (s *State) RemoveAll() int {
	if s.Locked || s.Closed {
		return Err
	}
	s.Mem = nil
	if s.UpLocked {
		return Err
	}
	s.Up = nil
	return OK
}

// Lock applies Lock(pass).
func (s *State) Lock(pass string) int {
	if s.Locked || s.Closed {
		return Err
	}
	if s.UpLocked {
		return Err
	}
	s.UpLocked, s.UpPass, s.Locked = true, pass, true
	return OK
}

// Unlock applies Unlock(pass).
func (s *State) Unlock(pass string) int {
	if !s.Locked || s.Closed {
		return Err
	}
	if !s.UpLocked || s.UpPass != pass {
		return Err
	}
	s.UpLocked, s.UpPass, s.Locked = false, "", false
	return OK
}

// MemHas reports whether blob is an in-memory certificate (Present or Maybe).
func (s State) MemHas(blob string) bool { return s.memFind(blob) >= 0 }

// UpstreamEmpty reports whether the upstream answers List with an empty list.
func (s State) UpstreamEmpty(now int64) bool {
	c := s.Clone()
	return len(c.upList(now)) == 0
}
