// Package worldw is the wire world: yubiagent.ServeAgent over simulated byte
// streams, serving either a recording stub YubiAgent or the full stack
// (*server -> shim -> reference agent).
package worldw

import (
	"bytes"
	"crypto/x509"
	"errors"
	"fmt"
	"time"

	"golang.org/x/crypto/ssh"
	"golang.org/x/crypto/ssh/agent"
)

// call is one invocation recorded by the stub agent.
type call struct {
	Op      string
	Blob    []byte
	Data    []byte
	Flags   uint32
	Comment string
	Str     string
	Added   *agent.AddedKey
	Code    byte
	Dur     time.Duration
	Confirm bool
	// Kept is the key object itself as the served agent received it (an agent keeps what it is given: the shim
	// stores hardware certificates, a keyring stores added keys); Blob is its encoding at the time of the call.
	Kept ssh.PublicKey
}

// stubAgent implements yubiagent.YubiAgent. Results are scripted: the n-th call
// fails when failOn[n] is set (with a text that names the call), otherwise it
// returns fixed values.
type stubAgent struct {
	calls   []call
	failOn  map[int]string
	keys    []*agent.Key
	sig     *ssh.Signature
	slots   []string
	cert    *x509.Certificate
	fwdFail bool
	// slowOn: the n-th call takes that long (on the simulated clock) before it answers - honestly
	slowOn map[int]time.Duration
	// smartcard: requests 20 / 21 / 26 get the success or failure octet of an ssh-agent instead of the echo
	smartcard bool
}

func (s *stubAgent) rec(c call) error {
	n := len(s.calls)
	s.calls = append(s.calls, c)
	if d, ok := s.slowOn[n]; ok {
		time.Sleep(d) // a touch that is waited for, a smartcard that takes its time
	}
	if txt, ok := s.failOn[n]; ok {
		return errors.New(txt)
	}
	return nil
}

func (s *stubAgent) List() ([]*agent.Key, error) {
	if err := s.rec(call{Op: "list"}); err != nil {
		return nil, err
	}
	return s.keys, nil
}

func (s *stubAgent) Sign(key ssh.PublicKey, data []byte) (*ssh.Signature, error) {
	return s.SignWithFlags(key, data, 0)
}

func (s *stubAgent) SignWithFlags(key ssh.PublicKey, data []byte, flags agent.SignatureFlags) (*ssh.Signature, error) {
	if err := s.rec(call{Op: "sign", Blob: key.Marshal(), Data: bytes.Clone(data), Flags: uint32(flags), Kept: key}); err != nil {
		return nil, err
	}
	return s.sig, nil
}

func (s *stubAgent) Add(key agent.AddedKey) error {
	k := key
	c := call{Op: "add", Added: &k, Comment: key.Comment}
	if key.Certificate != nil {
		c.Kept, c.Blob = key.Certificate, key.Certificate.Marshal()
	}
	return s.rec(c)
}

func (s *stubAgent) Remove(key ssh.PublicKey) error {
	return s.rec(call{Op: "remove", Blob: key.Marshal(), Kept: key})
}

func (s *stubAgent) RemoveAll() error { return s.rec(call{Op: "removeall"}) }

func (s *stubAgent) Lock(p []byte) error { return s.rec(call{Op: "lock", Data: bytes.Clone(p)}) }

func (s *stubAgent) Unlock(p []byte) error { return s.rec(call{Op: "unlock", Data: bytes.Clone(p)}) }

func (s *stubAgent) Signers() ([]ssh.Signer, error) {
	return nil, s.rec(call{Op: "signers"})
}

func (s *stubAgent) Extension(typ string, contents []byte) ([]byte, error) {
	if err := s.rec(call{Op: "ext", Str: typ, Data: bytes.Clone(contents)}); err != nil {
		return nil, err
	}
	return append([]byte("echo:"+typ+":"), contents...), nil
}

func (s *stubAgent) Forward(req []byte) ([]byte, error) {
	if s.smartcard && len(req) > 0 && (req[0] == 20 || req[0] == 21 || req[0] == 26) {
		// smartcard requests are answered as an ssh-agent answers them: success or failure octet
		if err := s.rec(call{Op: "forward", Data: bytes.Clone(req)}); err != nil {
			return []byte{5}, nil
		}
		return []byte{6}, nil
	}
	if err := s.rec(call{Op: "forward", Data: bytes.Clone(req)}); err != nil {
		return nil, err
	}
	return echoReply(req), nil
}

// echoReply is what the stub answers to a raw relay: a marker octet and the request - cut so that the answer is itself
// a frame the protocol can carry (a request of exactly 16 MiB would otherwise get an answer one octet too long, which
// ServeAgent rightly cannot send).
func echoReply(req []byte) []byte {
	const maxFrame = 16 << 20
	if len(req) >= maxFrame {
		req = req[:maxFrame-1]
	}
	return append([]byte{0xEE}, req...)
}

func (s *stubAgent) AddHardCert(key ssh.PublicKey, comment string) error {
	var blob []byte
	if key != nil {
		blob = key.Marshal()
	}
	return s.rec(call{Op: "addhardcert", Blob: blob, Comment: comment, Kept: key})
}

func (s *stubAgent) Wait(code byte) error { return s.rec(call{Op: "wait", Code: code}) }

func (s *stubAgent) Close() error { return s.rec(call{Op: "close"}) }

func (s *stubAgent) ListSlots() ([]string, error) {
	if err := s.rec(call{Op: "listslots"}); err != nil {
		return nil, err
	}
	return s.slots, nil
}

func (s *stubAgent) ReadSlot(slot string) (*x509.Certificate, error) {
	if err := s.rec(call{Op: "readslot", Str: slot}); err != nil {
		return nil, err
	}
	return s.cert, nil
}

func (s *stubAgent) AttestSlot(slot string) (*x509.Certificate, error) {
	if err := s.rec(call{Op: "attestslot", Str: slot}); err != nil {
		return nil, err
	}
	return s.cert, nil
}

func (s *stubAgent) AddSmartcardKey(id string, pin []byte, lifetime time.Duration, confirm bool) error {
	return s.rec(call{Op: "addsmartcard", Str: id, Data: bytes.Clone(pin), Dur: lifetime, Confirm: confirm})
}

func (s *stubAgent) RemoveSmartcardKey(id string, pin []byte) error {
	return s.rec(call{Op: "removesmartcard", Str: id, Data: bytes.Clone(pin)})
}

func failText(n int) string { return fmt.Sprintf("scripted failure #%d", n) }
