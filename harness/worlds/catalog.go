// Package worlds is the shim world (sequential): a real shimagent.Server built
// over a simulated connection to the reference agent, driven by one client
// through histories of operations, clock jumps, behind-the-back changes of the
// upstream agent and upstream faults, inside a bubble.
package worlds

import (
	"fmt"
	"math"
	"strings"

	"github.com/theparanoids/ysshra/keyid"
	"golang.org/x/crypto/ssh"
	"golang.org/x/crypto/ssh/agent"

	"verifsim/keys"
	"verifsim/shimmodel"
	"verifsim/sim"
)

// SKey is a plain key of the catalog.
type SKey struct {
	Role string `json:"role"`
	Kind string `json:"kind"`
}

// SCert is a certificate of the catalog.
type SCert struct {
	Role    string `json:"role"`
	Key     string `json:"key"`    // role of the certified key
	Window  string `json:"window"` // past|current|future|lapsing|starting|zero|forever|above_maxint|va_above|about_now
	T       int64  `json:"t"`      // seconds after the epoch, for lapsing/starting
	KeyID   string `json:"keyid"`  // class of the KeyID text
	Comment string `json:"comment"`
	Host    bool   `json:"host,omitempty"` // a host certificate (what gen-hostcert issues) instead of a user certificate
}

var epoch = sim.Epoch.Unix()

func window(c SCert) (va, vb uint64) {
	e := uint64(epoch)
	switch c.Window {
	case "past":
		return e - 100000, e - 1000
	case "current":
		return e - 1000, e + 10*365*86400
	case "future":
		return e + 5*365*86400, e + 6*365*86400
	case "lapsing":
		return e - 1000, e + uint64(c.T)
	case "starting":
		return e + uint64(c.T), e + 10*365*86400
	case "zero":
		return 0, 0
	case "forever":
		return 0, ssh.CertTimeInfinity
	case "above_maxint":
		return 0, uint64(math.MaxInt64) + 5
	case "va_above":
		return uint64(math.MaxInt64) + 1, ssh.CertTimeInfinity
	case "future_forever":
		return e + 5*365*86400, ssh.CertTimeInfinity // not yet valid, never expiring
	case "starting_forever":
		return e + uint64(c.T), ssh.CertTimeInfinity
	}
	return e - 1000, e + 10*365*86400
}

// keyIDClasses maps a class to a KeyID text. The first group decodes as YSSHCA
// KeyIDs (every certificate type), the second group are near misses and free text.
var keyIDClasses = []string{"touchless", "touch", "cached", "hw_firefighter", "agent_firefighter", "nonce", "headless", "default_touch",
	"missing_field", "version2", "inconsistent", "free_text", "empty", "empty_object", "json_array",
	// other spellings of the same JSON document (whether they decode is keyid.Unmarshal's verdict, see ident)
	"touch_leading_space", "touchless_leading_newline", "touch_trailing_space", "touch_pretty", "touch_reordered", "touch_extra_field", "touch_escaped",
	// long documents
	"touch_many_principals", "touchless_long_host"}

func keyIDText(class, role string) string {
	base := func(ff, hw, hl, nonce bool, tp, ver int) string {
		return fmt.Sprintf(`{"prins":["user"],"transID":"%010x","reqUser":"user","reqIP":"1.2.3.4","reqHost":"host","isFirefighter":%v,"isHWKey":%v,"isHeadless":%v,"isNonce":%v,"usage":0,"touchPolicy":%d,"ver":%d}`,
			len(role)*7919+int(role[len(role)-1]), ff, hw, hl, nonce, tp, ver)
	}
	switch class {
	case "touchless":
		return base(false, false, false, false, 1, 1)
	case "touch":
		return base(false, true, false, false, 2, 1)
	case "cached":
		return base(false, true, false, false, 3, 1)
	case "hw_firefighter":
		return base(true, true, false, false, 3, 1)
	case "agent_firefighter":
		return base(true, false, false, false, 1, 1)
	case "nonce":
		return base(false, false, false, true, 1, 1)
	case "headless":
		return base(false, false, true, false, 1, 1)
	case "default_touch":
		return base(false, false, false, false, 0, 1)
	case "missing_field":
		return `{"prins":["user"],"transID":"0011223344","reqUser":"user","reqIP":"1.2.3.4","isFirefighter":false,"isHWKey":false,"isHeadless":false,"isNonce":false,"usage":0,"touchPolicy":1,"ver":1}`
	case "version2":
		return base(false, false, false, false, 1, 2)
	case "inconsistent":
		return base(false, true, true, false, 1, 1)
	case "touch_leading_space":
		return " " + base(false, true, false, false, 2, 1)
	case "touchless_leading_newline":
		return "\r\n\t" + base(false, false, false, false, 1, 1)
	case "touch_trailing_space":
		return base(false, true, false, false, 2, 1) + " \n"
	case "touch_pretty":
		return strings.NewReplacer(",", ",\n  ", "{", "{\n  ", "}", "\n}").Replace(base(false, true, false, false, 2, 1))
	case "touch_reordered":
		b := base(false, true, false, false, 2, 1)
		return `{"ver":1,` + strings.TrimSuffix(b[1:], `,"ver":1}`) + "}"
	case "touch_extra_field":
		b := base(false, true, false, false, 2, 1)
		return strings.TrimSuffix(b, "}") + `,"note":"x"}`
	case "touch_many_principals":
		var prins []string
		for i := 0; i < 120; i++ {
			prins = append(prins, fmt.Sprintf(`"principal-%03d"`, i))
		}
		return strings.Replace(base(false, true, false, false, 2, 1), `"prins":["user"]`, `"prins":[`+strings.Join(prins, ",")+`]`, 1)
	case "touchless_long_host":
		return strings.Replace(base(false, false, false, false, 1, 1), `"reqHost":"host"`, `"reqHost":"`+strings.Repeat("a-long-host-label.", 150)+`example.com"`, 1)
	case "touch_escaped":
		return strings.Replace(base(false, true, false, false, 2, 1), `"reqUser":"user"`, `"reqUser":"\u0075ser"`, 1)
	case "empty":
		return ""
	case "empty_object":
		return "{}"
	case "json_array":
		return `["user"]`
	}
	return "user@host free text " + role
}

// catalog resolves roles to concrete keys and certificates.
type catalog struct {
	keys  map[string]SKey
	certs map[string]SCert
	cobj  map[string]*ssh.Certificate
	index map[string]string
}

func newCatalog(ks []SKey, cs []SCert) *catalog {
	c := &catalog{keys: map[string]SKey{}, certs: map[string]SCert{}, cobj: map[string]*ssh.Certificate{}}
	keys.ResetRSA()
	for _, k := range ks {
		c.keys[k.Role] = k
		if k.Kind != keys.KindSK && !isOpaque(k.Kind) {
			keys.Pub(k.Kind, c.keyLabel(k.Role)) // fixes the RSA pool assignment in plan order
		}
	}
	for _, x := range cs {
		c.certs[x.Role] = x
	}
	// build everything now: afterwards the catalog is read-only (the scheduled worlds read it from many tasks)
	for _, x := range cs {
		c.cert(x.Role)
	}
	c.index = map[string]string{}
	for _, k := range ks {
		c.index[string(c.pub(k.Role).Marshal())] = k.Role
	}
	for _, x := range cs {
		c.index[string(c.cert(x.Role).Marshal())] = x.Role
	}
	return c
}

func (c *catalog) isCert(role string) bool { _, ok := c.certs[role]; return ok }

func (c *catalog) keyLabel(role string) string { return "s:" + role }

func (c *catalog) pub(role string) ssh.PublicKey {
	if x, ok := c.certs[role]; ok {
		return c.cert(x.Role)
	}
	k := c.keys[role]
	if k.Kind == keys.KindSK {
		return keys.SKPub(c.keyLabel(role))
	}
	if isOpaque(k.Kind) {
		return keys.OpaquePub(c.keyLabel(role), k.Kind == keys.KindOpaqueCert)
	}
	return keys.Pub(k.Kind, c.keyLabel(role))
}

func isOpaque(kind string) bool { return kind == keys.KindOpaque || kind == keys.KindOpaqueCert }

// noSign reports whether the harness holds no private key for the role (security-key identities): such
// identities can only be listed by the underlying agent.
func (c *catalog) noSign(role string) bool {
	if x, ok := c.certs[role]; ok {
		return c.keys[x.Key].Kind == keys.KindSK
	}
	return c.keys[role].Kind == keys.KindSK || isOpaque(c.keys[role].Kind)
}

func (c *catalog) cert(role string) *ssh.Certificate {
	if o, ok := c.cobj[role]; ok {
		return o
	}
	x := c.certs[role]
	k := c.keys[x.Key]
	va, vb := window(x)
	o := keys.Cert(keys.CertSpec{KeyKind: k.Kind, KeyLabel: c.keyLabel(x.Key), CALabel: "s", KeyID: keyIDText(x.KeyID, role),
		Serial: roleSerial(role), Principals: []string{"user"}, ValidAfter: va, ValidBefore: vb, Host: x.Host})
	c.cobj[role] = o
	return o
}

// added returns the agent.AddedKey that adds the role to an agent.
func (c *catalog) added(role string, lifetime uint32) agent.AddedKey {
	if x, ok := c.certs[role]; ok {
		k := c.keys[x.Key]
		return agent.AddedKey{PrivateKey: keys.AgentPriv(k.Kind, c.keyLabel(x.Key)), Certificate: c.cert(role), Comment: x.Comment, LifetimeSecs: lifetime}
	}
	k := c.keys[role]
	return agent.AddedKey{PrivateKey: keys.AgentPriv(k.Kind, c.keyLabel(role)), Comment: "key " + role, LifetimeSecs: lifetime}
}

// ident returns the model identity for a role.
func (c *catalog) ident(role string, lifetime uint32, now int64) shimmodel.Ident {
	id := shimmodel.Ident{Blob: role, KeyBlob: role, Comment: "key " + role}
	if x, ok := c.certs[role]; ok {
		va, vb := window(x)
		_, err := keyid.Unmarshal(keyIDText(x.KeyID, role)) // delegated on purpose: C09 is relative to this verdict
		id = shimmodel.Ident{Blob: role, KeyBlob: x.Key, IsCert: true, VA: va, VB: vb, YSSHCA: err == nil, Comment: x.Comment}
	}
	if lifetime != 0 {
		id.Expiry = now + int64(lifetime)
	}
	id.NoSign = c.noSign(role)
	return id
}

// roleOf maps a blob back to its role ("?" when unknown).
func (c *catalog) roleOf(blob []byte) string {
	if r, ok := c.index[string(blob)]; ok {
		return r
	}
	return "?"
}

func roleSerial(role string) uint64 {
	var h uint64 = 1469598103934665603
	for _, b := range []byte(role) {
		h = (h ^ uint64(b)) * 1099511628211
	}
	return h
}
