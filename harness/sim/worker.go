package sim

import (
	"crypto/sha256"
	"encoding/hex"
	"encoding/json"
	"fmt"
	"os"
	"os/exec"
	"path/filepath"
	"sort"
	"strconv"
	"strings"
	"testing"
	"time"
)

// Violation is one failed oracle.
type Violation struct {
	Oracle string `json:"oracle"` // stable oracle id, e.g. "C12.no_panic"
	Key    string `json:"key"`    // canonical failing site, used to match known findings
	Detail string `json:"detail"`
	Step   int    `json:"step"`
}

func (v *Violation) String() string {
	return fmt.Sprintf("%s key=%q step=%d: %s", v.Oracle, v.Key, v.Step, v.Detail)
}

// Outcome is what one simulated run reports.
type Outcome struct {
	Violation    *Violation     `json:"violation,omitempty"`
	Signature    string         `json:"signature"` // behaviour signature; "" means trivial run
	Faults       map[string]int `json:"faults,omitempty"`
	Probes       map[string]int `json:"probes,omitempty"`
	SimTimeS     float64        `json:"sim_time_s"`
	Log          []string       `json:"log,omitempty"` // canonical event log (no key bytes, no addresses)
	Inconclusive int            `json:"inconclusive,omitempty"`
	Interleaving string         `json:"interleaving,omitempty"` // hash of the lock/IO order, scheduled worlds
	Evaluations  int            `json:"evaluations,omitempty"`  // executions inside this run (fault enumeration); 0 means 1
	ExtraSigs    []string       `json:"-"`                      // further behaviour signatures (one per enumerated placement)
	All          []*Violation   `json:"-"`                      // every failed oracle of the run, any property
	// Recorded, when set, is the plan completed with the decisions actually taken
	// (schedule); it is what gets minimised and written to the replay file.
	Recorded json.RawMessage `json:"-"`
	// Fatal: the process must not execute another plan (a scheduled run was aborted
	// and its goroutines are left parked).
	Fatal bool `json:"-"`
}

func (o *Outcome) Fault(kind string) {
	if o.Faults == nil {
		o.Faults = map[string]int{}
	}
	o.Faults[kind]++
}

func (o *Outcome) Probe(name string) {
	if o.Probes == nil {
		o.Probes = map[string]int{}
	}
	o.Probes[name]++
}

func (o *Outcome) Logf(format string, a ...any) {
	o.Log = append(o.Log, fmt.Sprintf(format, a...))
}

// Fail records the first violation of a run.
func (o *Outcome) Fail(oracle, key string, step int, format string, a ...any) {
	o.All = append(o.All, &Violation{Oracle: oracle, Key: key, Step: step, Detail: fmt.Sprintf(format, a...)})
}

// selectViolation keeps the first failed oracle that belongs to the property
// being checked (a world evaluates the oracles of all its properties on every
// run; each check reports only its own). Harness self-checks always count.
func (o *Outcome) selectViolation(prop string) {
	o.Violation = nil
	for _, v := range o.All {
		if strings.HasPrefix(v.Oracle, "harness.") {
			o.Violation = v
			return
		}
	}
	for _, v := range o.All {
		if strings.HasPrefix(v.Oracle, prop+".") {
			o.Violation = v
			return
		}
		if strings.HasPrefix(v.Oracle, "any.") {
			// verdicts that concern every property of the world (the run never finished)
			c := *v
			c.Oracle = prop + "." + strings.TrimPrefix(v.Oracle, "any.")
			o.Violation = &c
			return
		}
	}
}

// Spec describes how one property is explored in a world.
type Spec struct {
	Property string
	World    string
	// Generate builds a plan (JSON-marshalable) from the PRNG.
	Generate func(r *Rng, tier string) any
	// Execute runs one plan. It must be a pure function of the plan and the code.
	Execute func(t *testing.T, plan json.RawMessage) *Outcome
	// Shrink proposes simpler variants of a plan, most aggressive first.
	Shrink func(plan json.RawMessage) []json.RawMessage
	// Isolated: every minimisation candidate runs in its own process (race oracle).
	Isolated bool
	// PostProcess, when set, is consulted after Execute in explore/replay mode to
	// add process-level verdicts (e.g. race detector reports).
	PostProcess func(o *Outcome)
	// WarmUp, when set, runs once per process before the first plan, in every mode, OUTSIDE any bubble: one plain
	// operation of the code under test, so that what it initialises lazily for the whole process (a pool and its filler
	// goroutine, a registry, a janitor) comes into being outside the bubbles - channels and goroutines created inside
	// the bubble of one plan must not be used from the bubble of the next (the Go runtime aborts the process).
	WarmUp func(t *testing.T)
}

// Replay is the replay file format.
type Replay struct {
	Property  string          `json:"property"`
	World     string          `json:"world"`
	Seed      uint64          `json:"seed"`
	RunSeed   uint64          `json:"run_seed"`
	Violation *Violation      `json:"violation"`
	Minimised bool            `json:"minimised"`
	ShrinkRun int             `json:"shrink_executions"`
	Plan      json.RawMessage `json:"plan"`
	Log       []string        `json:"log,omitempty"`
	// Process history: the run seeds of the plans the exploring process executed before this one (their plans are
	// regenerated from the seeds). A violation that needs state left behind by earlier runs of the same process -
	// package-level caches, pools, memoised configuration - does not show in a fresh process on the plan alone;
	// the driver then keeps the (reduced) history and sets WithHistory, and replay executes it first.
	Tier        string   `json:"tier,omitempty"`
	PrefixSeeds []uint64 `json:"process_history_run_seeds,omitempty"`
	WithHistory bool     `json:"replay_with_process_history,omitempty"`
	// Unminimised is the failing plan before minimisation (minimisation candidates ran in the exploring process
	// too and may have relied on what it had accumulated); dropped once the file is final.
	Unminimised json.RawMessage `json:"unminimised_plan,omitempty"`
}

// WorkerResult is written by a worker process for the driver.
type WorkerResult struct {
	Property     string              `json:"property"`
	Worker       int                 `json:"worker"`
	Runs         int                 `json:"runs"`
	Nontrivial   int                 `json:"nontrivial"`
	Signatures   []string            `json:"signatures"`
	Interleaves  []string            `json:"interleavings,omitempty"`
	Faults       map[string]int      `json:"faults"`
	Probes       map[string]int      `json:"probes"`
	SimTimeS     float64             `json:"sim_time_s"`
	WallS        float64             `json:"wall_s"`
	Inconclusive int                 `json:"inconclusive"`
	Samples      []json.RawMessage   `json:"samples"`
	Violation    *Violation          `json:"violation,omitempty"`
	ReplayFile   string              `json:"replay_file,omitempty"`
	KnownHits    map[string]int      `json:"known_hits,omitempty"`
	KnownDetail  map[string]string   `json:"known_detail,omitempty"`
	Reproduced   *bool               `json:"reproduced,omitempty"` // replay mode
	Traces       map[string][]string `json:"traces,omitempty"`     // trace mode: seed -> log
	Error        string              `json:"error,omitempty"`
}

type knownEntry struct {
	Property string `json:"property"`
	Status   string `json:"status"` // "known" | "fixed"
	Oracle   string `json:"oracle"`
	Key      string `json:"key"`
	What     string `json:"what"`
}

func loadKnown(path, prop string) map[string]knownEntry {
	out := map[string]knownEntry{}
	if path == "" {
		return out
	}
	b, err := os.ReadFile(path)
	if err != nil {
		return out
	}
	var f struct {
		Findings []knownEntry `json:"findings"`
	}
	if json.Unmarshal(b, &f) != nil {
		return out
	}
	for _, e := range f.Findings {
		if e.Property == prop && e.Status == "known" {
			out[e.Oracle+"|"+e.Key] = e
		}
	}
	return out
}

func envInt(name string, def int) int {
	if v := os.Getenv(name); v != "" {
		if n, err := strconv.Atoi(v); err == nil {
			return n
		}
	}
	return def
}

func envU64(name string, def uint64) uint64 {
	if v := os.Getenv(name); v != "" {
		if n, err := strconv.ParseUint(v, 10, 64); err == nil {
			return n
		}
		if n, err := strconv.ParseInt(v, 10, 64); err == nil {
			return uint64(n)
		}
	}
	return def
}

func sigHash(s string) string {
	h := sha256.Sum256([]byte(s))
	return hex.EncodeToString(h[:8])
}

func mustJSON(v any) json.RawMessage {
	b, err := json.Marshal(v)
	if err != nil {
		panic(err)
	}
	return b
}

// RunWorker is the entry point of every world's test binary.
func RunWorker(t *testing.T, specs []*Spec) {
	prop := os.Getenv("VERIF_PROP")
	if prop == "" {
		t.Skip("VERIF_PROP not set: this binary is driven by /verif/check")
	}
	var spec *Spec
	for _, s := range specs {
		if s.Property == prop {
			spec = s
		}
	}
	if spec == nil {
		t.Fatalf("property %s is not served by this world", prop)
	}
	mode := os.Getenv("VERIF_MODE")
	out := os.Getenv("VERIF_OUT")
	res := &WorkerResult{Property: prop, Worker: envInt("VERIF_WORKER", 0),
		Faults: map[string]int{}, Probes: map[string]int{}}
	start := time.Now()
	defer func() {
		res.WallS = time.Since(start).Seconds()
		if out != "" {
			tmp := out + ".tmp"
			if err := os.WriteFile(tmp, mustJSON(res), 0o644); err == nil {
				os.Rename(tmp, out)
			}
		}
	}()
	if spec.WarmUp != nil {
		spec.WarmUp(t)
	}
	switch mode {
	case "replay":
		replayMode(t, spec, res)
	case "candidate":
		candidateMode(t, spec, res)
	case "trace":
		traceMode(t, spec, res)
	default:
		exploreMode(t, spec, res)
	}
}

func execute(t *testing.T, spec *Spec, plan json.RawMessage) *Outcome {
	if f := os.Getenv("VERIF_INFLIGHT"); f != "" {
		os.WriteFile(f, plan, 0o644)
	}
	o := spec.Execute(t, plan)
	if spec.PostProcess != nil {
		spec.PostProcess(o)
	}
	o.selectViolation(spec.Property)
	return o
}

func exploreMode(t *testing.T, spec *Spec, res *WorkerResult) {
	seed := envU64("VERIF_SEED", 1)
	worker := envInt("VERIF_WORKER", 0)
	maxRuns := envInt("VERIF_MAX_RUNS", 100)
	budget := time.Duration(envInt("VERIF_BUDGET_S", 30)) * time.Second
	tier := os.Getenv("VERIF_TIER")
	if tier == "" {
		tier = "quick"
	}
	known := loadKnown(os.Getenv("VERIF_KNOWN"), spec.Property)
	sigs := map[string]struct{}{}
	ilv := map[string]struct{}{}
	var history []uint64
	start := time.Now()
	for i := 0; i < maxRuns; i++ {
		if time.Since(start) > budget || Recycle {
			break
		}
		runSeed := Mix(seed, uint64(worker)+1, uint64(i)+1)
		plan := mustJSON(spec.Generate(NewRng(runSeed), tier))
		o := execute(t, spec, plan)
		history = append(history, runSeed)
		res.Runs++
		if o.Evaluations > 1 {
			res.Runs += o.Evaluations - 1
		}
		if o.Signature != "" {
			res.Nontrivial++
			sigs[sigHash(o.Signature)] = struct{}{}
		}
		for _, x := range o.ExtraSigs {
			sigs[sigHash(x)] = struct{}{}
		}
		if o.Interleaving != "" {
			ilv[o.Interleaving] = struct{}{}
		}
		for k, v := range o.Faults {
			res.Faults[k] += v
		}
		for k, v := range o.Probes {
			res.Probes[k] += v
		}
		res.SimTimeS += o.SimTimeS
		res.Inconclusive += o.Inconclusive
		if len(res.Samples) < 3 && (o.Signature != "" || i > 20) {
			res.Samples = append(res.Samples, plan)
		}
		if o.Recorded != nil && o.Violation != nil {
			plan = o.Recorded
		}
		if o.Violation != nil && strings.HasPrefix(o.Violation.Oracle, "harness.") {
			res.Error = "harness self-check failed: " + o.Violation.String() + " plan=" + string(plan)
			break
		}
		if o.Violation != nil {
			if e, ok := known[o.Violation.Oracle+"|"+o.Violation.Key]; ok {
				if res.KnownHits == nil {
					res.KnownHits = map[string]int{}
					res.KnownDetail = map[string]string{}
				}
				res.KnownHits[e.Oracle+"|"+e.Key]++
				res.KnownDetail[e.Oracle+"|"+e.Key] = e.What
				continue
			}
			if os.Getenv("VERIF_SURVEY") != "" {
				// development aid: count distinct violations instead of stopping
				if res.KnownHits == nil {
					res.KnownHits = map[string]int{}
					res.KnownDetail = map[string]string{}
				}
				k := "survey:" + o.Violation.Oracle + "|" + o.Violation.Key
				if res.KnownHits[k] == 0 {
					rep := &Replay{Property: spec.Property, World: spec.World, Seed: seed, RunSeed: runSeed, Violation: o.Violation, Plan: plan, Log: o.Log}
					b, _ := json.MarshalIndent(rep, "", " ")
					os.MkdirAll("/verif/replays", 0o755)
					os.WriteFile(fmt.Sprintf("/verif/replays/survey-%s-%s.json", spec.Property, sigHash(k)), b, 0o644)
				}
				res.KnownHits[k]++
				res.KnownDetail[k] = o.Violation.Detail
				if o.Fatal {
					break
				}
				continue
			}
			// New violation: minimise, write the replay file, stop this worker.
			v := o.Violation
			minPlan, minOut, n := plan, o, 0
			if !Stalled {
				// (after a run abandoned by the real-time guard every candidate would cost that long again)
				minPlan, minOut, n = minimise(t, spec, plan, o)
			}
			rep := &Replay{Property: spec.Property, World: spec.World, Seed: seed, RunSeed: runSeed,
				Violation: minOut.Violation, Minimised: n > 0, ShrinkRun: n, Plan: minPlan, Log: minOut.Log,
				Tier: tier, PrefixSeeds: history[:len(history)-1], Unminimised: plan}
			dir := os.Getenv("VERIF_REPLAY_DIR")
			if dir == "" {
				dir = "/verif/replays"
			}
			os.MkdirAll(dir, 0o755)
			file := filepath.Join(dir, fmt.Sprintf("%s-%d-w%d-r%d.json", spec.Property, seed, worker, i))
			b, _ := json.MarshalIndent(rep, "", " ")
			os.WriteFile(file, b, 0o644)
			res.Violation = v
			res.ReplayFile = file
			break
		}
	}
	for s := range sigs {
		res.Signatures = append(res.Signatures, s)
	}
	sort.Strings(res.Signatures)
	for s := range ilv {
		res.Interleaves = append(res.Interleaves, s)
	}
	sort.Strings(res.Interleaves)
}

// runCandidate executes a plan either in this process or, for isolated specs, in
// a fresh copy of this test binary.
func runCandidate(t *testing.T, spec *Spec, plan json.RawMessage) *Outcome {
	if !spec.Isolated {
		return execute(t, spec, plan)
	}
	dir, err := os.MkdirTemp("", "verif-cand-")
	if err != nil {
		return &Outcome{}
	}
	defer os.RemoveAll(dir)
	pf := filepath.Join(dir, "plan.json")
	of := filepath.Join(dir, "out.json")
	os.WriteFile(pf, plan, 0o644)
	exe, _ := os.Executable()
	cmd := exec.Command(exe, "-test.run", "^TestWorker$", "-test.cpu", "1", "-test.timeout", "120s")
	cmd.Env = append(filterEnv(os.Environ(), "VERIF_MODE", "VERIF_OUT", "VERIF_PLAN", "GORACE"),
		"VERIF_MODE=candidate", "VERIF_OUT="+of, "VERIF_PLAN="+pf,
		"GORACE=log_path="+filepath.Join(dir, "race")+" halt_on_error=0 history_size=3")
	cmd.Run()
	b, err := os.ReadFile(of)
	if err != nil {
		return &Outcome{}
	}
	var wr WorkerResult
	if json.Unmarshal(b, &wr) != nil {
		return &Outcome{}
	}
	return &Outcome{Violation: wr.Violation}
}

func filterEnv(env []string, drop ...string) []string {
	var out []string
next:
	for _, e := range env {
		for _, d := range drop {
			if strings.HasPrefix(e, d+"=") {
				continue next
			}
		}
		out = append(out, e)
	}
	return out
}

func candidateMode(t *testing.T, spec *Spec, res *WorkerResult) {
	b, err := os.ReadFile(os.Getenv("VERIF_PLAN"))
	if err != nil {
		res.Error = err.Error()
		return
	}
	o := execute(t, spec, b)
	res.Runs = 1
	res.Violation = o.Violation
}

// minimise shrinks a failing plan while the same oracle keeps failing.
func minimise(t *testing.T, spec *Spec, plan json.RawMessage, first *Outcome) (json.RawMessage, *Outcome, int) {
	if spec.Shrink == nil {
		return plan, first, 0
	}
	oracle := first.Violation.Oracle
	best, bestOut := plan, first
	execs := 0
	deadline := time.Now().Add(time.Duration(envInt("VERIF_SHRINK_S", 60)) * time.Second)
	maxExec := envInt("VERIF_SHRINK_EXECS", 400)
	for progress := true; progress; {
		progress = false
		for _, cand := range spec.Shrink(best) {
			if execs >= maxExec || time.Now().After(deadline) {
				return best, bestOut, execs
			}
			if string(cand) == string(best) {
				continue
			}
			execs++
			o := runCandidate(t, spec, cand)
			if o.Violation != nil && o.Violation.Oracle == oracle {
				best = cand
				if !spec.Isolated {
					bestOut = o
				} else {
					bestOut = &Outcome{Violation: o.Violation}
				}
				progress = true
				break
			}
		}
	}
	return best, bestOut, execs
}

func replayMode(t *testing.T, spec *Spec, res *WorkerResult) {
	b, err := os.ReadFile(os.Getenv("VERIF_REPLAY"))
	if err != nil {
		res.Error = err.Error()
		return
	}
	var rep Replay
	if err := json.Unmarshal(b, &rep); err != nil {
		res.Error = err.Error()
		return
	}
	if rep.WithHistory {
		// the plans this process' predecessor had executed before: their verdicts do not matter here
		for _, rs := range rep.PrefixSeeds {
			execute(t, spec, mustJSON(spec.Generate(NewRng(rs), rep.Tier)))
		}
		fmt.Printf("REPLAY %s: %d earlier runs of the process re-executed first\n", spec.Property, len(rep.PrefixSeeds))
	}
	o := execute(t, spec, rep.Plan)
	res.Runs = 1
	ok := o.Violation != nil && rep.Violation != nil && o.Violation.Oracle == rep.Violation.Oracle
	res.Reproduced = &ok
	res.Violation = o.Violation
	if o.Violation != nil {
		fmt.Printf("REPLAY %s: %s\n", spec.Property, o.Violation)
	} else {
		fmt.Printf("REPLAY %s: no violation\n", spec.Property)
	}
	for _, l := range o.Log {
		fmt.Println("  " + l)
	}
}

// traceMode executes a fixed list of seeds and records the canonical logs, for
// the determinism self-test (same seed => same log, in any process).
func traceMode(t *testing.T, spec *Spec, res *WorkerResult) {
	seed := envU64("VERIF_SEED", 1)
	n := envInt("VERIF_MAX_RUNS", 30)
	tier := os.Getenv("VERIF_TIER")
	if tier == "" {
		tier = "quick"
	}
	res.Traces = map[string][]string{}
	for i := 0; i < n; i++ {
		runSeed := Mix(seed, 1, uint64(i)+1)
		plan := mustJSON(spec.Generate(NewRng(runSeed), tier))
		o := execute(t, spec, plan)
		res.Runs++
		log := append([]string{"plan=" + sigHash(string(plan))}, o.Log...)
		if o.Violation != nil {
			log = append(log, "VIOLATION "+o.Violation.Oracle+" "+o.Violation.Key)
		}
		log = append(log, "sig="+o.Signature)
		res.Traces[strconv.FormatUint(runSeed, 10)] = log
	}
}

// DropEach returns, for a slice encoded in a plan, the indices to try removing:
// halves first, then single elements (ddmin flavoured).
func DropEach(n int) [][2]int {
	var out [][2]int
	for size := n / 2; size >= 1; size /= 2 {
		for lo := 0; lo+size <= n; lo += size {
			out = append(out, [2]int{lo, lo + size})
		}
		if size == 1 {
			break
		}
	}
	return out
}
