package worlds

import (
	"encoding/json"
	"fmt"

	"verifsim/refagent"
	"verifsim/sim"
)

// SStep is one step of a history.
type SStep struct {
	Op    string `json:"op"`
	Role  string `json:"role,omitempty"`
	Arg   string `json:"arg,omitempty"`
	N     int64  `json:"n,omitempty"`
	Flags uint32 `json:"flags,omitempty"`
}

// SPlan is one shim world.
type SPlan struct {
	NoUp   bool                 `json:"no_up"`
	Dual   bool                 `json:"dual,omitempty"` // run the history in both upstream modes and compare (C09)
	Keys   []SKey               `json:"keys"`
	Certs  []SCert              `json:"certs"`
	Init   []string             `json:"init"` // roles the upstream holds at start-up
	Steps  []SStep              `json:"steps"`
	Faults []refagent.PeerFault `json:"faults,omitempty"`
	// Construct selects the construction-failure scenario of C10 (real
	// shimagent.New over a unix socket served by the harness): "" | fault kind
	Construct string `json:"construct,omitempty"`
	// Comp selects Option.PubKeyComp ("to list credentials in a specific order"): "" default | asc | desc | certfirst | never
	Comp string `json:"comp,omitempty"`
	// Prelude: before the judged history the same process (and the same simulated clock) runs the history once on
	// another shim instance with its own underlying agent ("same" upstream mode or the "other" one): whatever one
	// instance learnt about the identities must not leak into the next
	Prelude string `json:"prelude,omitempty"`
}

func pick[T any](r *sim.Rng, xs []T) T { return xs[r.Intn(len(xs))] }

type genCfg struct {
	prop     string
	windows  []string
	keyids   []string
	ops      []string
	weights  []int
	faults   float64
	dual     bool
	maxSteps int
}

var allOps = []string{"list", "signers", "signvia", "sign", "add", "addhard", "remove", "removeall", "lock", "unlock", "ext", "forward",
	"advance", "upremove", "upadd", "uplock", "close"}

func cfgFor(prop string) genCfg {
	c := genCfg{prop: prop, maxSteps: 40}
	switch prop {
	case "C07":
		c.windows = []string{"past", "current", "current", "future", "lapsing", "lapsing", "starting", "zero", "forever", "above_maxint", "va_above", "future_forever", "starting_forever"}
		c.keyids = []string{"touchless", "touch", "free_text", "hw_firefighter"}
		//          list sgnrs via sign add addh rm rmall lock unl ext fwd adv uprm upadd uplock
		c.weights = []int{16, 8, 4, 10, 10, 10, 5, 1, 1, 1, 0, 0, 14, 6, 3, 2, 0}
		c.faults = 0.2
	case "C08":
		c.windows = []string{"current", "current", "forever", "past", "lapsing"}
		c.keyids = []string{"touchless", "touch", "free_text"}
		c.weights = []int{12, 6, 3, 8, 7, 7, 6, 3, 12, 14, 2, 2, 1, 1, 1, 1, 3}
		c.faults = 0.35
	case "C09":
		c.windows = []string{"current", "current", "forever", "past", "lapsing"}
		c.keyids = keyIDClasses
		c.weights = []int{16, 10, 6, 12, 12, 8, 8, 2, 1, 1, 0, 0, 3, 2, 4, 0, 0}
		c.dual = true
	default: // C10
		c.windows = []string{"current", "current", "forever", "past", "future", "lapsing"}
		c.keyids = []string{"touchless", "touch", "cached", "free_text", "nonce", "missing_field"}
		c.weights = []int{12, 6, 5, 12, 10, 14, 8, 2, 2, 2, 5, 8, 3, 3, 3, 1, 1}
		c.faults = 0.5
	}
	return c
}

func genS(prop string) func(r *sim.Rng, tier string) any {
	return func(r *sim.Rng, tier string) any {
		c := cfgFor(prop)
		p := &SPlan{NoUp: r.Bool(0.4), Dual: c.dual}
		if c.dual {
			p.NoUp = true
		}
		nk := r.Range(2, 5)
		opaqueRole := ""
		kinds := []string{"ed25519", "ed25519", "ecdsa256", "rsa2048"}
		for i := 0; i < nk; i++ {
			p.Keys = append(p.Keys, SKey{Role: fmt.Sprintf("K%d", i), Kind: pick(r, kinds)})
		}
		if r.Bool(0.12) {
			// an identity of the underlying agent that the ssh library cannot parse (an algorithm it does not know,
			// plain or certificate-style): it is listed raw and passed through like any other identity
			p.Keys = append(p.Keys, SKey{Role: fmt.Sprintf("K%d", nk), Kind: pick(r, []string{"opaque", "opaque-cert"})})
			opaqueRole = p.Keys[nk].Role
			nk++
		}
		if prop != "C09" && r.Bool(0.25) {
			// a security-key identity: listed and certified, but this agent cannot sign with it
			p.Keys = append(p.Keys, SKey{Role: fmt.Sprintf("K%d", nk), Kind: "sk-ed25519"})
			nk++
		}
		nc := r.Range(2, 8)
		for i := 0; i < nc; i++ {
			x := SCert{Role: fmt.Sprintf("C%d", i), Key: p.Keys[r.Intn(nk)].Role, Window: pick(r, c.windows), KeyID: pick(r, c.keyids),
				Comment: pick(r, []string{"", "work", "my cert"}), Host: r.Bool(0.12)}
			for x.Key == opaqueRole {
				x.Key = p.Keys[r.Intn(nk)].Role // nothing certifies an opaque identity
			}
			if x.Window == "lapsing" || x.Window == "starting" || x.Window == "starting_forever" {
				x.T = int64(2*r.Range(5, 2000) + 1) // odd offsets; plain clock jumps are even
			}
			p.Certs = append(p.Certs, x)
		}
		// initial upstream content
		for _, k := range p.Keys {
			if r.Bool(0.7) {
				p.Init = append(p.Init, k.Role)
			}
		}
		for _, x := range p.Certs {
			if r.Bool(0.35) {
				p.Init = append(p.Init, x.Role)
			}
		}
		roles := func(certOnly bool) []string {
			var out []string
			if !certOnly {
				for _, k := range p.Keys {
					out = append(out, k.Role)
				}
			}
			for _, x := range p.Certs {
				out = append(out, x.Role)
			}
			return out
		}
		n := r.Range(8, c.maxSteps)
		locked := false
		for i := 0; i < n; i++ {
			op := allOps[r.Weighted(c.weights)]
			st := SStep{Op: op}
			switch op {
			case "sign", "remove", "add", "upadd", "upremove":
				st.Role = pick(r, roles(false))
				if op == "sign" {
					st.Flags = pick(r, []uint32{0, 0, 2, 4})
				}
				if op == "add" && r.Bool(0.2) {
					st.N = int64(2 * r.Range(5, 500))
				}
				if op == "add" && r.Bool(0.15) {
					st.Flags = 1 // confirm-before-use constraint
				}
				if (op == "sign" || op == "remove") && r.Bool(0.3) {
					st.Arg = "agentkey" // pass the key as *agent.Key (format + blob), as the wire server does
				}
				if op == "upremove" {
					st.Role = pick(r, p.Keys).Role
					if r.Bool(0.3) {
						st.Role = pick(r, roles(true))
					}
				}
			case "signvia":
				st.Role = pick(r, roles(false))
			case "addhard":
				st.Role = pick(r, roles(true))
				if r.Bool(0.1) {
					st.Role = pick(r, p.Keys).Role // not a certificate
				}
				st.Arg = pick(r, []string{"", "yubikey", "slot 9a"})
			case "lock":
				st.Arg = pick(r, []string{"pw1", "pw2", ""})
				locked = true
			case "unlock":
				st.Arg = pick(r, []string{"pw1", "pw2", "wrong", "", "pw1", "pw1\n", "pw1\r\n", "\n", "pw1 ", "pw1\x00", "PW1"})
				_ = locked
			case "ext":
				st.Arg = fmt.Sprintf("ext-%d", i)
			case "forward":
				st.N = int64(pick(r, []int{0, 2, 3, 7, 20, 21, 26, 28, 40, 100, 200, 255}))
				// raw bodies of every size class, including the boundaries of one- and two-byte lengths
				st.Arg = fmt.Sprintf("gen:%d:%d", pick(r, []int{0, 1, 3, 17, 39, 254, 255, 256, 1023, 4096, 65534, 65535, 65536, r.Intn(40)}), r.Intn(1000000))
			case "advance":
				if r.Bool(0.5) && len(p.Certs) > 0 {
					// jump next to a planned boundary: one second before or after it
					x := pick(r, p.Certs)
					if x.T > 0 {
						st.Op = "advance_to"
						st.N = x.T + int64(pick(r, []int{-1, 1, 1, 3}))
						if (x.Window == "starting" || x.Window == "starting_forever") && r.Bool(0.4) {
							st.N = x.T // exactly ValidAfter: the certificate is valid from this second on
						}
						break
					}
				}
				st.N = int64(pick(r, []int{2, 60, 3600, 86400, 365 * 86400, 100 * 365 * 86400}))
			case "uplock":
				st.N = int64(r.Intn(2))
			}
			p.Steps = append(p.Steps, st)
			if prop == "C08" && op == "lock" && r.Bool(0.15) {
				// a run of wrong passphrases, then the right one: how often it was wrong before does not matter
				for k := 0; k < r.Range(3, 9); k++ {
					p.Steps = append(p.Steps, SStep{Op: "unlock", Arg: pick(r, []string{"wrong", "pw2", "PW1", st.Arg + "x"})})
				}
				p.Steps = append(p.Steps, SStep{Op: "unlock", Arg: st.Arg}, SStep{Op: "list"})
			} else if prop == "C08" && op == "lock" && r.Bool(0.2) {
				// somebody unlocks (or re-locks with another passphrase) the underlying agent on its own socket while
				// the shim is locked; what the shim is told afterwards must still be judged by the passphrase
				p.Steps = append(p.Steps, SStep{Op: "uplock", N: int64(r.Intn(2))},
					SStep{Op: "unlock", Arg: pick(r, []string{"wrong", "pw2", "", st.Arg})}, SStep{Op: "list"})
			}
		}
		// end most histories with observations
		p.Steps = append(p.Steps, SStep{Op: "list"}, SStep{Op: "signers"})
		if r.Bool(c.faults) {
			kinds := refagent.AllFaults
			if prop == "C07" {
				// the underlying agent refuses (or botches) a request of the purge itself: removing an expired or
				// orphaned identity, or the listing before it
				p.Faults = append(p.Faults, refagent.PeerFault{At: -1, OnKind: pick(r, []string{"remove", "remove", "remove", "list"}), Nth: r.Intn(3),
					Fault: pick(r, []string{refagent.FaultFail, refagent.FaultFail, refagent.FaultGarbage, refagent.FaultEmpty})})
				if r.Bool(0.3) {
					// an underlying agent that does not implement removal at all (token-backed agents): every
					// remove request is refused, from the first one on
					p.Faults[len(p.Faults)-1] = refagent.PeerFault{At: -1, OnKind: "remove", Nth: 0, Fault: refagent.FaultFailKind}
				}
			} else if prop == "C08" {
				// refusals and connection errors on lock / unlock
				p.Faults = append(p.Faults, refagent.PeerFault{At: -1, OnKind: pick(r, []string{"lock", "unlock"}), Nth: r.Intn(2),
					Fault: pick(r, []string{refagent.FaultFail, refagent.FaultFail, refagent.FaultCloseBefore, refagent.FaultGarbage})})
			} else {
				for i := 0; i < r.Range(1, 2); i++ {
					if r.Bool(0.5) {
						p.Faults = append(p.Faults, refagent.PeerFault{At: r.Intn(3 * n), Fault: pick(r, kinds)})
					} else {
						p.Faults = append(p.Faults, refagent.PeerFault{At: -1, OnKind: pick(r, []string{"list", "sign", "add", "remove", "removeall", "lock", "unlock", "ext", "raw"}),
							Nth: r.Intn(4), Fault: pick(r, kinds)})
					}
				}
			}
		}
		if (prop == "C09" || prop == "C07" || prop == "C10") && len(p.Certs) > 0 && r.Bool(0.12) {
			// another client of the underlying agent adds an identity while a call of the shim is in flight - between
			// the two listings of one Signers call, say
			for i := 0; i < r.Range(1, 2); i++ {
				role := p.Certs[r.Intn(len(p.Certs))].Role
				if r.Bool(0.25) && len(p.Keys) > 0 {
					role = p.Keys[r.Intn(len(p.Keys))].Role
				}
				prefix := refagent.ActPrefix
				if r.Bool(0.4) {
					prefix = refagent.ActAfterPrefix // right after the listing was answered: before the call's next request
				}
				p.Faults = append(p.Faults, refagent.PeerFault{At: -1, OnKind: "list", Nth: r.Intn(8), Fault: prefix + role})
			}
		}
		slowC08 := prop == "C08" && r.Bool(0.12)
		if slowC08 {
			// a raw relay that the underlying agent answers late (but honestly), then the lock discipline: whatever the
			// shim did about the late answer, a wrong passphrase must not unlock and the right one must
			pw := pick(r, []string{"pw1", "secret", "p w"})
			p.Steps = append(p.Steps, SStep{Op: "forward", N: int64(pick(r, []int{26, 20, 200})), Arg: pick(r, []string{"", "short", "x"})},
				SStep{Op: "lock", Arg: pw}, SStep{Op: "list"}, SStep{Op: "unlock", Arg: pw + "-wrong"}, SStep{Op: "list"},
				SStep{Op: "unlock", Arg: pw}, SStep{Op: "list"})
		}
		if prop == "C10" && r.Bool(0.2) || slowC08 {
			// an underlying agent that is merely slow (touch or PIN prompt): no fault, the reply is honest. Such
			// plans carry no time boundaries, so that it does not matter when within the slow call the clock is read.
			for i := range p.Certs {
				switch p.Certs[i].Window {
				case "lapsing":
					p.Certs[i].Window = "current"
				case "starting":
					p.Certs[i].Window = "future"
				}
				p.Certs[i].T = 0
			}
			for i := range p.Steps {
				if p.Steps[i].Op == "add" {
					p.Steps[i].N = 0
				}
				if p.Steps[i].Op == "advance_to" {
					p.Steps[i].Op, p.Steps[i].N = "advance", 60
				}
			}
			for i := 0; i < r.Range(1, 3); i++ {
				p.Faults = append(p.Faults, refagent.PeerFault{At: -1, OnKind: pick(r, []string{"raw", "raw", "raw", "sign", "list", "add", "remove", "ext", "lock"}),
					Nth: r.Intn(3), Fault: fmt.Sprintf("%s%d", refagent.SlowPrefix, pick(r, []int{1, 9, 11, 29, 31, 61, 301, 3601, 86401}))})
			}
			if slowC08 {
				nraw := 0
				for _, st := range p.Steps {
					if st.Op == "forward" {
						nraw++
					}
				}
				p.Faults = []refagent.PeerFault{{At: -1, OnKind: "raw", Nth: nraw - 1, Fault: fmt.Sprintf("%s%d", refagent.SlowPrefix, pick(r, []int{4, 6, 11, 31, 61, 3601}))}}
			}
		}
		if (prop == "C10" || prop == "C07") && r.Bool(0.3) {
			p.Comp = pick(r, []string{"asc", "desc", "certfirst", "never"})
		}
		if r.Bool(0.12) {
			p.Prelude = pick(r, []string{"same", "other"})
		}
		if r.Bool(0.012) && len(p.Certs) > 0 && len(p.Faults) == 0 {
			// a long-lived shim: hundreds of changes of the in-memory certificate table before the usual history
			x := &p.Certs[0]
			x.Window, x.T = "forever", 0
			has := false
			for _, role := range p.Init {
				if role == x.Key {
					has = true
				}
			}
			if !has {
				p.Init = append(p.Init, x.Key)
			}
			var long []SStep
			for k := 0; k < r.Range(140, 330); k++ {
				long = append(long, SStep{Op: "addhard", Role: x.Role}, SStep{Op: pick(r, []string{"remove", "remove", "removeall"}), Role: x.Role})
				if long[len(long)-1].Op == "removeall" {
					long = append(long, SStep{Op: "upadd", Role: x.Key})
				}
			}
			p.Steps = append(long, p.Steps...)
		}
		if prop == "C10" && r.Bool(0.08) {
			p.Construct = pick(r, append([]string{"refuse_dial"}, refagent.AllFaults...))
			p.Steps = p.Steps[:min(len(p.Steps), 4)]
		}
		return p
	}
}

func shrinkS(raw json.RawMessage) []json.RawMessage {
	var p SPlan
	if json.Unmarshal(raw, &p) != nil {
		return nil
	}
	var out []json.RawMessage
	clone := func() SPlan {
		var q SPlan
		json.Unmarshal(raw, &q)
		return q
	}
	emit := func(q SPlan) { b, _ := json.Marshal(q); out = append(out, b) }
	for _, rg := range sim.DropEach(len(p.Steps)) {
		q := clone()
		q.Steps = append(append([]SStep(nil), p.Steps[:rg[0]]...), p.Steps[rg[1]:]...)
		emit(q)
	}
	for i := range p.Faults {
		q := clone()
		q.Faults = append(append([]refagent.PeerFault(nil), p.Faults[:i]...), p.Faults[i+1:]...)
		emit(q)
	}
	for i := range p.Init {
		q := clone()
		q.Init = append(append([]string(nil), p.Init[:i]...), p.Init[i+1:]...)
		emit(q)
	}
	used := map[string]bool{}
	for _, s := range p.Steps {
		used[s.Role] = true
	}
	for _, r := range p.Init {
		used[r] = true
	}
	for i, c := range p.Certs {
		if !used[c.Role] {
			q := clone()
			q.Certs = append(append([]SCert(nil), p.Certs[:i]...), p.Certs[i+1:]...)
			emit(q)
		}
	}
	if p.Dual {
		q := clone()
		q.Dual = false
		emit(q)
	}
	if p.Comp != "" {
		q := clone()
		q.Comp = ""
		emit(q)
	}
	if p.Prelude != "" {
		q := clone()
		q.Prelude = ""
		emit(q)
	}
	return out
}
