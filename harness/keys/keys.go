// Package keys provides deterministic harness key material: Ed25519 and ECDSA
// keys derived from a label, RSA keys from a committed pool (RSA generation
// cannot be made deterministic in the supported Go versions).
package keys

import (
	"crypto"
	"crypto/ecdsa"
	"crypto/ed25519"
	"crypto/elliptic"
	"crypto/rsa"
	"crypto/sha256"
	"crypto/sha512"
	"crypto/x509"
	_ "embed"
	"encoding/base64"
	"encoding/json"
	"errors"
	"fmt"
	"io"
	"math/big"
	"sync"

	"golang.org/x/crypto/ssh"
)

//go:embed pool.json
var poolJSON []byte

type poolEnt struct {
	Bits int    `json:"bits"`
	DER  string `json:"der"`
	Tag  string `json:"tag,omitempty"` // special keys (unusual public exponent, very large modulus): not in the size pools
}

var (
	poolOnce sync.Once
	pool     map[int][]*rsa.PrivateKey
	special  map[string]*rsa.PrivateKey
)

// SpecialRSATags lists the special keys: public exponents 3, 17, 257 and moduli above 4096 bits.
var SpecialRSATags = []string{"e3-1024", "e3-2048", "e17-2048", "e257-1536", "b5120", "b8192"}

// RSASpecial returns a special pooled key.
func RSASpecial(tag string) *rsa.PrivateKey {
	poolOnce.Do(loadPool)
	k := special[tag]
	if k == nil {
		panic("no special RSA key " + tag)
	}
	return k
}

func loadPool() {
	var ents []poolEnt
	if err := json.Unmarshal(poolJSON, &ents); err != nil {
		panic(err)
	}
	pool = map[int][]*rsa.PrivateKey{}
	special = map[string]*rsa.PrivateKey{}
	for _, e := range ents {
		der, _ := base64.StdEncoding.DecodeString(e.DER)
		k, err := x509.ParsePKCS1PrivateKey(der)
		if err != nil {
			panic(err)
		}
		if e.Tag != "" {
			special[e.Tag] = k
			continue
		}
		pool[e.Bits] = append(pool[e.Bits], k)
	}
}

// RSA returns the i-th pooled RSA key of the given size (wrapping around).
func RSA(bits, i int) *rsa.PrivateKey {
	poolOnce.Do(loadPool)
	ks := pool[bits]
	if len(ks) == 0 {
		panic(fmt.Sprintf("no pooled RSA key of %d bits", bits))
	}
	return ks[i%len(ks)]
}

// RSASizes lists the pooled sizes.
func RSASizes() []int { return []int{1024, 1536, 2048, 3072, 4096} }

// Ed returns a deterministic Ed25519 key for a label.
func Ed(label string) ed25519.PrivateKey {
	s := sha256.Sum256([]byte("verif-ed25519:" + label))
	return ed25519.NewKeyFromSeed(s[:])
}

// EC returns a deterministic ECDSA key for a label on P-256/384/521.
func EC(bits int, label string) *ecdsa.PrivateKey {
	var c elliptic.Curve
	switch bits {
	case 384:
		c = elliptic.P384()
	case 521:
		c = elliptic.P521()
	default:
		c = elliptic.P256()
	}
	h := sha512.Sum512([]byte(fmt.Sprintf("verif-ecdsa-%d:%s", bits, label)))
	n := c.Params().N
	d := new(big.Int).SetBytes(append(h[:], h[:8]...))
	d.Mod(d, new(big.Int).Sub(n, big.NewInt(1)))
	d.Add(d, big.NewInt(1))
	size := (c.Params().BitSize + 7) / 8
	k, err := ecdsa.ParseRawPrivateKey(c, d.FillBytes(make([]byte, size)))
	if err != nil {
		panic(err)
	}
	return k
}

// Kinds of SSH key the harness uses.
const (
	KindEd  = "ed25519"
	KindEC  = "ecdsa256"
	KindEC3 = "ecdsa384"
	KindRSA = "rsa2048"
)

// AllKinds lists the key kinds.
var AllKinds = []string{KindEd, KindEC, KindRSA, KindEC3}

// Priv returns the private key (in the form agent.AddedKey accepts) for a
// (kind, label).
func Priv(kind, label string) crypto.Signer {
	switch kind {
	case KindEC:
		return EC(256, label)
	case KindEC3:
		return EC(384, label)
	case KindRSA:
		return RSA(2048, rsaIndex(label))
	default:
		return Ed(label)
	}
}

// AgentPriv returns the private key value to put in agent.AddedKey.PrivateKey.
func AgentPriv(kind, label string) interface{} {
	p := Priv(kind, label)
	if e, ok := p.(ed25519.PrivateKey); ok {
		return &e
	}
	return p
}

// Signer returns an ssh.Signer for (kind, label).
func Signer(kind, label string) ssh.Signer {
	s, err := ssh.NewSignerFromSigner(Priv(kind, label))
	if err != nil {
		panic(err)
	}
	return s
}

// Pub returns the ssh public key for (kind, label).
func Pub(kind, label string) ssh.PublicKey { return Signer(kind, label).PublicKey() }

// CertSpec describes an SSH certificate the harness mints.
type CertSpec struct {
	KeyKind     string            `json:"key_kind"`
	KeyLabel    string            `json:"key_label"`
	CALabel     string            `json:"ca_label"`
	KeyID       string            `json:"key_id"`
	Serial      uint64            `json:"serial"`
	Principals  []string          `json:"principals,omitempty"`
	ValidAfter  uint64            `json:"valid_after"`
	ValidBefore uint64            `json:"valid_before"`
	CritOpts    map[string]string `json:"crit_opts,omitempty"`
	// CASig selects the CA key and signature format: "" (Ed25519) | rsa-sha1 (the legacy "ssh-rsa" format) |
	// rsa-sha2-256 | rsa-sha2-512 | ecdsa
	CASig string `json:"ca_sig,omitempty"`
	// Host: a host certificate instead of a user certificate
	Host bool `json:"host,omitempty"`
	// RawType, when non-zero, is the certificate type as is (values the protocol does not define included)
	RawType uint32 `json:"raw_type,omitempty"`
}

// fixedAlgoSigner signs with one signature algorithm of its key, whatever the caller would negotiate.
type fixedAlgoSigner struct {
	s    ssh.AlgorithmSigner
	algo string
}

func (f fixedAlgoSigner) PublicKey() ssh.PublicKey { return f.s.PublicKey() }
func (f fixedAlgoSigner) Sign(r io.Reader, d []byte) (*ssh.Signature, error) {
	return f.s.SignWithAlgorithm(r, d, f.algo)
}

// CASigner returns the CA signer for a certificate spec.
func CASigner(label, casig string) ssh.Signer {
	switch casig {
	case "rsa-sha1", "rsa-sha2-256", "rsa-sha2-512":
		poolOnce.Do(loadPool)
		rs, err := ssh.NewSignerFromSigner(pool[2048][len(pool[2048])-1])
		if err != nil {
			panic(err)
		}
		algo := map[string]string{"rsa-sha1": ssh.KeyAlgoRSA, "rsa-sha2-256": ssh.KeyAlgoRSASHA256, "rsa-sha2-512": ssh.KeyAlgoRSASHA512}[casig]
		return fixedAlgoSigner{rs.(ssh.AlgorithmSigner), algo}
	case "ecdsa":
		return Signer(KindEC, "ca:"+label)
	}
	return Signer(KindEd, "ca:"+label)
}

// KindSK is a security-key (sk-ssh-ed25519@openssh.com) public key: it can be listed and certified, the
// harness holds no private key for it.
const KindSK = "sk-ed25519"

// SKPub returns a deterministic security-key public key for a label.
func SKPub(label string) ssh.PublicKey {
	h := sha256.Sum256([]byte("verif-sk:" + label))
	blob := ssh.Marshal(struct {
		Name        string
		KeyBytes    []byte
		Application string
	}{"sk-ssh-ed25519@openssh.com", h[:], "ssh:"})
	k, err := ssh.ParsePublicKey(blob)
	if err != nil {
		panic(err)
	}
	return k
}

func certTypeOf(s CertSpec) uint32 {
	if s.RawType != 0 {
		return s.RawType
	}
	return certType(s.Host)
}

func certType(host bool) uint32 {
	if host {
		return ssh.HostCert
	}
	return ssh.UserCert
}

// Opaque is an identity whose blob is a legal agent identity (it starts with an algorithm name) that the ssh
// library cannot parse: an algorithm it does not know.
type Opaque struct {
	Format string
	Blob   []byte
}

func (o *Opaque) Type() string    { return o.Format }
func (o *Opaque) Marshal() []byte { return o.Blob }
func (o *Opaque) Verify([]byte, *ssh.Signature) error {
	return errors.New("keys: opaque identity cannot verify")
}

// OpaquePub returns a deterministic opaque identity for a label; certLike selects a certificate-style algorithm name.
func OpaquePub(label string, certLike bool) *Opaque {
	format := "ssh-verif-unknown"
	if certLike {
		format = "ssh-verifnew-cert-v01@openssh.com"
	}
	h := sha256.Sum256([]byte("verif-opaque:" + label))
	blob := ssh.Marshal(struct {
		Name string
		Rest []byte `ssh:"rest"`
	}{format, append(h[:], h[:]...)})
	return &Opaque{Format: format, Blob: blob}
}

// KindOpaque / KindOpaqueCert name the opaque identities as key kinds of a catalog.
const (
	KindOpaque     = "opaque"
	KindOpaqueCert = "opaque-cert"
)

// Cert mints a user certificate for the spec, signed by the Ed25519 CA named
// CALabel. Ed25519 signatures are deterministic, so equal specs give equal blobs.
func Cert(s CertSpec) *ssh.Certificate {
	var subject ssh.PublicKey
	if s.KeyKind == KindSK {
		subject = SKPub(s.KeyLabel)
	} else {
		subject = Pub(s.KeyKind, s.KeyLabel)
	}
	c := &ssh.Certificate{
		Key:             subject,
		Serial:          s.Serial,
		CertType:        certTypeOf(s),
		KeyId:           s.KeyID,
		ValidPrincipals: s.Principals,
		ValidAfter:      s.ValidAfter,
		ValidBefore:     s.ValidBefore,
	}
	c.Permissions.CriticalOptions = s.CritOpts
	c.Permissions.Extensions = map[string]string{"permit-pty": ""}
	ca := CASigner(s.CALabel, s.CASig)
	if err := c.SignCert(zeroReader{}, ca); err != nil {
		panic(err)
	}
	return c
}

type zeroReader struct{}

func (zeroReader) Read(p []byte) (int, error) {
	for i := range p {
		p[i] = 0
	}
	return len(p), nil
}

// RSA keys cannot be derived from a label; labels are mapped to pool indices in
// order of first use. The order of first use is a function of the plan, so a
// replay sees the same assignment. ResetRSA starts a new assignment (call it at
// the start of every execution).
var (
	rsaMu    sync.Mutex
	rsaAlloc = map[string]int{}
)

// ResetRSA forgets the label -> pool index assignment.
func ResetRSA() {
	rsaMu.Lock()
	rsaAlloc = map[string]int{}
	rsaMu.Unlock()
}

// RSAPoolSize is the number of pooled 2048-bit keys.
func RSAPoolSize() int { poolOnce.Do(loadPool); return len(pool[2048]) }

func rsaIndex(label string) int {
	rsaMu.Lock()
	defer rsaMu.Unlock()
	if i, ok := rsaAlloc[label]; ok {
		return i
	}
	i := len(rsaAlloc)
	rsaAlloc[label] = i
	return i
}
