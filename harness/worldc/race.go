package worldc

import (
	"os"
	"path/filepath"
	"regexp"
	"strings"

	"verifsim/sched"
	"verifsim/sim"
	"verifsim/simsync"
)

var raceOffsets = map[string]int64{}

var frameRe = regexp.MustCompile(`(?m)^  (\S+)\(`)

// racePost returns a PostProcess hook that turns new race detector reports
// (GORACE=log_path=...) into violations of the property. Only reports whose two
// access stacks both contain a frame of the code under test count.
func racePost(prop string) func(o *sim.Outcome) {
	return func(o *sim.Outcome) {
		base := ""
		for _, f := range strings.Fields(os.Getenv("GORACE")) {
			if strings.HasPrefix(f, "log_path=") {
				base = strings.TrimPrefix(f, "log_path=")
			}
		}
		if base == "" {
			return
		}
		files, _ := filepath.Glob(base + ".*")
		for _, f := range files {
			b, err := os.ReadFile(f)
			if err != nil {
				continue
			}
			off := raceOffsets[f]
			if int64(len(b)) <= off {
				continue
			}
			newPart := string(b[off:])
			raceOffsets[f] = int64(len(b))
			for _, rep := range strings.Split(newPart, "==================") {
				if !strings.Contains(rep, "WARNING: DATA RACE") {
					continue
				}
				o.Probe("race_reports_seen")
				// the two access stacks are the first two blocks; goroutine creation stacks follow
				blocks := strings.Split(rep, "\n\n")
				var acc []string
				for _, bl := range blocks {
					t := strings.TrimSpace(bl)
					if strings.HasPrefix(t, "WARNING: DATA RACE") {
						t = strings.TrimSpace(strings.TrimPrefix(t, "WARNING: DATA RACE"))
					}
					if strings.HasPrefix(t, "Read at") || strings.HasPrefix(t, "Write at") || strings.HasPrefix(t, "Previous read at") || strings.HasPrefix(t, "Previous write at") {
						acc = append(acc, t)
					}
				}
				if len(acc) < 2 {
					continue
				}
				const pkg = "github.com/theparanoids/ysshra/"
				// both accesses must come from the code under test (accesses made by the harness itself, e.g.
				// recording code, do not count)
				// the accessing code = the innermost frame that belongs either to the code under test or to the
				// harness (frames of the runtime, the standard library and third-party modules in between - a map
				// access, sort.Slice, the agent client - are attributed to their caller)
				inner := func(a string) string {
					for _, m := range frameRe.FindAllStringSubmatch(a, -1) {
						if strings.Contains(m[1], pkg) || strings.HasPrefix(m[1], "verifsim/") {
							return m[1]
						}
					}
					return ""
				}
				if !strings.Contains(inner(acc[0]), pkg) || !strings.Contains(inner(acc[1]), pkg) {
					o.Probe("race_reports_outside_code_under_test")
					continue
				}
				site := func(a string) string {
					for _, m := range frameRe.FindAllStringSubmatch(a, -1) {
						if strings.Contains(m[1], pkg) {
							return strings.TrimPrefix(m[1], pkg)
						}
					}
					return "?"
				}
				s0, s1 := site(acc[0]), site(acc[1])
				if s1 < s0 {
					s0, s1 = s1, s0
				}
				o.Fail(prop+".no_data_race", "race:"+s0+"|"+s1, 0, "the race detector reports unsynchronised accesses in %s and %s under this schedule:\n%s", s0, s1, trimTo(acc[0], 600)+"\n"+trimTo(acc[1], 600))
			}
		}
	}
}

func trimTo(s string, n int) string {
	if len(s) > n {
		return s[:n]
	}
	return s
}

// chanProbes reports how much of a run went through goroutines and channel operations of the code under test (the
// pinned tree has neither in the scheduled packages), and stops the exploration of this process when finished runs left
// too many goroutines parked in channel operations nobody completes.
func chanProbes(o *sim.Outcome, s *sched.Sched, spawnedBefore int) {
	if n := simsync.Spawned() - spawnedBefore; n > 0 {
		o.Probe("runs_with_goroutines_of_code_under_test")
	}
	if s.RealOps > 0 {
		o.Probe("runs_with_channel_operations")
		for i := 0; i < s.RealOps && i < 200; i++ {
			o.Probe("channel_operations")
		}
		for i := 0; i < s.RealParked && i < 200; i++ {
			o.Probe("channel_operations_parked")
		}
	}
	if sched.LeakedReal() > 400 {
		sim.Recycle = true
	}
}
