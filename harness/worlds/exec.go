package worlds

import (
	"bytes"
	"encoding/hex"
	"encoding/json"
	"fmt"
	"io"
	"log"
	"net"
	"runtime/debug"
	"sort"
	"strings"
	"testing"
	"testing/synctest"
	"time"

	"github.com/rs/zerolog"
	"github.com/theparanoids/ysshra/agent/shimagent"
	"golang.org/x/crypto/ssh"
	"golang.org/x/crypto/ssh/agent"

	"verifsim/refagent"
	"verifsim/shimmodel"
	"verifsim/sim"
)

func init() {
	zerolog.SetGlobalLevel(zerolog.Disabled)
	log.SetOutput(io.Discard)
}

// stack is one shim over one reference agent.
type stack struct {
	cat       *catalog
	ref       *refagent.Agent
	peer      *refagent.Peer
	shim      shimagent.ShimAgent
	a, b      net.Conn
	done      chan struct{}
	model     shimmodel.State
	fired     int         // faults fired so far
	kept      []keptReply // replies of raw relays that the caller still holds
	waitIdle  bool        // the plan has acts right after an answer: wait for the peer to be idle before judging a call
	slowNow   bool        // a slow reply was delivered during the call in progress
	gaveUp    bool        // the shim failed a call while the underlying agent was merely slow: it may have closed the connection
	abandoned []SStep     // calls the shim gave up on while the agent was slow (their requests are carried out later)
	acted     []string    // identities another client added to the underlying agent during the call in progress
	// actMayPurge: in-memory certificates that an orphan / expiry purge may have dropped at some moment of a call
	// during which another client changed the underlying agent (consumed by resync)
	actMayPurge map[string]bool
	firedLog    []string // kinds
	closed      bool     // a closing fault fired: the upstream connection is gone
	lastReq     []byte   // the request the peer is answering
	mustFail    string   // set when a fault replaced an answer that would have been a success: the call in progress cannot succeed
	shimDead    bool     // the shim closed its connection itself
}

func isClosing(f string) bool {
	switch f {
	case refagent.FaultCloseBefore, refagent.FaultCloseMid, refagent.FaultCloseAfter, refagent.FaultOversize:
		return true
	}
	return false
}

func newStack(p *SPlan, noUp bool, o *sim.Outcome) *stack {
	s := &stack{cat: newCatalog(p.Keys, p.Certs), ref: refagent.New(), done: make(chan struct{})}
	now := time.Now().Unix()
	s.model = shimmodel.State{NoUp: noUp}
	for _, r := range p.Init {
		s.directAdd(r, o)
		s.model.Add(s.cat.ident(r, 0, now), now)
	}
	s.a, s.b = net.Pipe()
	s.peer = &refagent.Peer{Agent: s.ref, Faults: append([]refagent.PeerFault(nil), p.Faults...)}
	s.peer.OnRequest = func(idx int, kind string, req []byte) { s.lastReq = req }
	s.peer.OnFault = func(kind, fault string, idx int) {
		s.fired++
		s.firedLog = append(s.firedLog, kind+"/"+fault)
		if isClosing(fault) {
			s.closed = true
		}
		o.Fault("upstream/" + fault)
		// Did the fault turn an answer that would have been a success into a failure? Then the shim's call
		// cannot succeed: a failure of the underlying agent surfaces as an error. (A remove request for
		// something the agent does not hold fails anyway - the shim expects that for in-memory certificates.)
		switch fault {
		case refagent.FaultFail, refagent.FaultFailKind, refagent.FaultEmpty, refagent.FaultGarbage, refagent.FaultWrongType, refagent.FaultTruncBody:
			honestOK := false
			switch kind {
			case "list":
				honestOK = true
			case "remove", "sign":
				if blob := firstString(s.lastReq); blob != nil && !s.ref.IsLocked() {
					for _, id := range s.ref.Snapshot() {
						if bytes.Equal(id.Blob, blob) && !(kind == "sign" && id.NoSign) {
							honestOK = true
						}
					}
				}
			}
			// a truncated reply means that the request was carried out and only its answer was mangled: for a
			// removal the shim may find that out (by listing) and report what is true
			if honestOK && !((kind == "list" || kind == "remove") && fault == refagent.FaultTruncBody) {
				s.mustFail = kind + "/" + fault
			}
		}
	}
	s.peer.OnAct = func(what, kind string, idx int) {
		// another client of the underlying agent adds an identity while a call of the shim is in flight (between
		// two requests of that call, or before its only one)
		for _, r := range s.upstreamRoles() {
			if r == what {
				return
			}
		}
		if s.directAdd(what, o) {
			s.acted = append(s.acted, what)
			s.firedLog = append(s.firedLog, kind+"/act:"+what)
			o.Fault("upstream_changed_by_another_client_during_a_call")
		}
	}
	s.peer.OnSlow = func(kind string, secs int64) {
		o.Fault("upstream_slow_reply")
		o.Probe("slow_reply/" + kind)
		s.slowNow = true
	}
	for _, f := range p.Faults {
		if strings.HasPrefix(f.Fault, refagent.ActAfterPrefix) {
			s.waitIdle = true
		}
	}
	go func() { s.peer.Serve(s.b); close(s.done) }()
	return s
}

// directAdd puts a role into the reference agent behind the shim's back (listing-only for security keys).
func (s *stack) directAdd(r string, o *sim.Outcome) bool {
	if s.cat.noSign(r) {
		pub := s.cat.pub(r)
		comment := "key " + r
		var cert *ssh.Certificate
		if s.cat.isCert(r) {
			cert = s.cat.cert(r)
			comment = s.cat.certs[r].Comment
		}
		s.ref.DirectAddListing(pub.Type(), pub.Marshal(), comment, cert)
		return true
	}
	if err := s.ref.DirectAdd(s.cat.added(r, 0)); err != nil {
		o.Fail("harness.setup", "direct_add", 0, "%v", err)
		return false
	}
	return true
}

func (s *stack) stop() {
	s.a.Close()
	s.b.Close()
	<-s.done
}

// result of one step on the real shim.
type stepRes struct {
	err      error
	panicked any
	stack    []byte
	keys     []string // roles listed (sorted), with duplicates
	comments map[string]string
	sigOK    bool
	sigErr   string
	bytes    []byte
	faulted  bool
	slow     bool   // the underlying agent took its time over a request of this call (and answered honestly)
	mustFail string // a fault of this call turned a successful answer of the underlying agent into a failure
}

// firstString returns the first ssh string of a request body (after the type byte).
func firstString(req []byte) []byte {
	if len(req) < 5 {
		return nil
	}
	n := int(req[1])<<24 | int(req[2])<<16 | int(req[3])<<8 | int(req[4])
	if n < 0 || len(req) < 5+n {
		return nil
	}
	return req[5 : 5+n]
}

// keptReply is a reply a caller received earlier and still holds.
type keptReply struct {
	step      int
	got, want []byte
}

// checkKept: what a caller was given stays what it was given, whatever went through the shim afterwards.
func (s *stack) checkKept(o *sim.Outcome, mode string) {
	for _, k := range s.kept {
		if !bytes.Equal(k.got, k.want) {
			o.Fail("C10.forward", "reply_changed_later", k.step, "[%s] step %d forward: the reply the caller received (%d bytes) was changed by later calls (now %x..., was %x...)", mode, k.step, len(k.want), k.got[:min(len(k.got), 24)], k.want[:min(len(k.want), 24)])
			return
		}
	}
	if len(s.kept) > 1 {
		o.Probe("earlier_replies_intact_after_later_calls")
	}
}

func (s *stack) call(f func() error) (res stepRes) {
	before := s.fired
	s.mustFail = ""
	func() {
		defer func() {
			if r := recover(); r != nil {
				res.panicked = r
				res.stack = debug.Stack()
			}
		}()
		res.err = f()
	}()
	if s.waitIdle && res.panicked == nil && !s.closed {
		// an act of another client right after the last answer of this call must have happened before the call is judged
		synctest.Wait()
	}
	res.faulted = s.fired > before || len(s.acted) > 0 // (what another client did during the call relaxes the comparison like a fault)
	res.slow = s.slowNow
	s.slowNow = false
	res.mustFail = s.mustFail
	return res
}

func rolesOfKeys(c *catalog, ks []*agent.Key) ([]string, map[string]string) {
	var out []string
	cm := map[string]string{}
	for _, k := range ks {
		r := c.roleOf(k.Blob)
		out = append(out, r)
		cm[r] = k.Comment
	}
	sort.Strings(out)
	return out, cm
}

func verifySig(pub ssh.PublicKey, data []byte, sig *ssh.Signature) error {
	if sig == nil {
		return fmt.Errorf("nil signature")
	}
	if c, ok := pub.(*ssh.Certificate); ok {
		return c.Key.Verify(data, sig)
	}
	return pub.Verify(data, sig)
}

// upstreamRoles lists the roles the reference agent holds (bypassing its lock).
func (s *stack) upstreamRoles() []string {
	var out []string
	for _, id := range s.ref.Snapshot() {
		out = append(out, s.cat.roleOf(id.Blob))
	}
	sort.Strings(out)
	return out
}

func modelUpRoles(m *shimmodel.State, now int64) []string {
	var out []string
	for _, id := range m.Up {
		if id.Expiry != 0 && now >= id.Expiry {
			continue
		}
		out = append(out, id.Blob)
	}
	sort.Strings(out)
	return out
}

func diff(got, must, may []string) (missing, extra []string) {
	cnt := map[string]int{}
	for _, g := range got {
		cnt[g]++
	}
	for _, m := range must {
		if cnt[m] > 0 {
			cnt[m]--
		} else {
			missing = append(missing, m)
		}
	}
	mayCnt := map[string]int{}
	for _, m := range may {
		mayCnt[m]++
	}
	for g, n := range cnt {
		for i := 0; i < n; i++ {
			if mayCnt[g] > 0 {
				mayCnt[g]--
				continue
			}
			extra = append(extra, g)
		}
	}
	sort.Strings(missing)
	sort.Strings(extra)
	return
}

func outcomeName(x int) string { return []string{"ok", "err", "either"}[x] }

// runHistory executes the plan's steps on one stack, checking every step
// against the model. It returns the listings observed per step (for the C09
// differential) and the hidden sets.
type obsList struct {
	step   int
	op     string
	roles  []string
	hidden []string
	ok     bool
}

// wipe overwrites a buffer the caller had passed to a call that has returned.
func wipe(b []byte) {
	for i := range b {
		b[i] = 0x5a
	}
}

// comparator returns the ordering function a caller may pass as Option.PubKeyComp; whatever the order, the
// set of listed identities is the same.
func comparator(kind string) func(x, y ssh.PublicKey) bool {
	switch kind {
	case "asc":
		return func(x, y ssh.PublicKey) bool { return bytes.Compare(x.Marshal(), y.Marshal()) < 0 }
	case "desc":
		return func(x, y ssh.PublicKey) bool { return bytes.Compare(x.Marshal(), y.Marshal()) > 0 }
	case "certfirst":
		return func(x, y ssh.PublicKey) bool {
			return strings.Contains(x.Type(), "-cert-") && !strings.Contains(y.Type(), "-cert-")
		}
	case "never":
		return func(x, y ssh.PublicKey) bool { return false }
	}
	return nil
}

func runHistory(p *SPlan, noUp bool, o *sim.Outcome, sigParts *[]string) []obsList {
	s := newStack(p, noUp, o)
	defer s.stop()
	var lists []obsList
	mode := "up"
	if noUp {
		mode = "noup"
	}
	defer func() { s.checkKept(o, mode) }()
	var err error
	cres := s.call(func() error {
		var e error
		s.shim, e = shimagent.VerifNewFromConn(s.a, shimagent.Option{NoUpstream: noUp, PubKeyComp: comparator(p.Comp)})
		return e
	})
	err = cres.err
	if cres.panicked != nil {
		o.Fail("C10.no_crash", "construct:"+panicSite(cres.stack), 0, "[%s] constructing the shim panicked (%v) [faults fired: %v]", mode, cres.panicked, s.firedLog)
		return nil
	}
	if err == nil && s.fired > 0 && !(len(s.firedLog) == 1 && strings.HasSuffix(s.firedLog[0], "/"+refagent.FaultCloseAfter)) {
		o.Fail("C10.construct", "construct_error_swallowed", 0, "[%s] the underlying agent failed while the shim was being constructed (%v) but construction reported success", mode, s.firedLog)
		return nil
	}
	if err != nil && cres.slow && s.fired == 0 {
		// the underlying agent was merely slow while the shim was being constructed and the shim did not wait for it:
		// giving up on a slow peer is a legitimate policy (an error is reported, nothing is served)
		o.Probe("gave_up_on_slow_underlying_agent")
		return nil
	}
	if err != nil {
		if s.fired > 0 {
			o.Probe("construct_failure_reported")
			o.Logf("[%s] construction failed under a fault: error returned", mode)
			*sigParts = append(*sigParts, mode+":construct_err")
			return nil
		}
		o.Fail("C10.construct", "construct_error", 0, "shim construction failed without a fault: %v", err)
		return nil
	}
	c := s.cat
	m := &s.model
	lockedAtModel := func() bool { return m.Locked }
	if len(s.acted) > 0 {
		// another client added identities while the shim was being constructed: they are upstream identities like any
		for _, r := range s.acted {
			now := time.Now().Unix()
			m.Add(c.ident(r, 0, now), now)
		}
		s.acted = nil
	}
	for i, st := range p.Steps {
		now := time.Now().Unix()
		tag := fmt.Sprintf("[%s] step %d %s %s", mode, i, st.Op, st.Role)
		pre := m.Clone()
		wasLocked := lockedAtModel()
		var res stepRes
		var want int = -1
		reason := ""
		var wantList shimmodel.Listing
		listOK := false
		var signKeyRole string
		data := []byte(fmt.Sprintf("payload-%s-%d", mode, i))
		switch st.Op {
		case "advance":
			if time.Now().Add(time.Duration(st.N)*time.Second).Year() > 2240 {
				continue // int64 nanoseconds end in 2262; the runtime's fake clock must not overflow
			}
			time.Sleep(time.Duration(st.N) * time.Second)
			o.Fault("clock_jump")
			continue
		case "advance_to":
			target := sim.Epoch.Add(time.Duration(st.N) * time.Second)
			if d := time.Until(target); d > 0 {
				time.Sleep(d)
				o.Fault("clock_jump_to_boundary")
			}
			continue
		case "upremove":
			if s.ref.DirectRemove(c.pub(st.Role).Marshal()) {
				if j := findUp(m, st.Role); j >= 0 {
					m.Up = append(m.Up[:j:j], m.Up[j+1:]...)
				}
				o.Fault("upstream_key_removed_behind_shim")
			}
			continue
		case "upadd":
			if s.directAdd(st.Role, o) {
				saveLocked := m.Locked
				saveUp := m.UpLocked
				m.Locked, m.UpLocked = false, false
				m.Add(c.ident(st.Role, 0, now), now)
				m.Locked, m.UpLocked = saveLocked, saveUp
			}
			continue
		case "uplock":
			// also while the shim holds the lock: the underlying agent has a socket of its own
			s.ref.DirectLock(st.N == 1, []byte("behind"))
			m.UpLocked, m.UpPass = st.N == 1, "behind"
			if st.N == 1 {
				o.Fault("upstream_locked_behind_shim")
			}
			continue
		case "list":
			var ks []*agent.Key
			res = s.call(func() error { var e error; ks, e = s.shim.List(); return e })
			res.keys, res.comments = rolesOfKeys(c, ks)
			wantList, listOK = m.List(now)
			want = shimmodel.OK
		case "signers", "signvia":
			var sg []ssh.Signer
			res = s.call(func() error { var e error; sg, e = s.shim.Signers(); return e })
			for _, x := range sg {
				res.keys = append(res.keys, c.roleOf(x.PublicKey().Marshal()))
			}
			sort.Strings(res.keys)
			wantList, listOK = m.List(now)
			want = shimmodel.OK
			if !listOK {
				want = shimmodel.Err
			}
			if st.Op == "signvia" && res.err == nil && res.panicked == nil {
				blob := c.pub(st.Role).Marshal()
				for _, x := range sg {
					if bytes.Equal(x.PublicKey().Marshal(), blob) {
						var sig *ssh.Signature
						r2 := s.call(func() error { var e error; sig, e = x.Sign(nil, data); return e })
						if r2.panicked != nil {
							res.panicked, res.stack = r2.panicked, r2.stack
						} else if r2.err == nil {
							if e := verifySig(x.PublicKey(), data, sig); e != nil {
								o.Fail("C10.signer_sig", "signer_bad_signature", i, "%s: signature made through a listed signer does not verify: %v", tag, e)
							} else {
								o.Probe("signed_through_signer")
							}
						} else if r2.slow || s.gaveUp {
							// (the shim did not wait for a slow agent: see the give-up rule below)
							s.gaveUp = true
							o.Probe("gave_up_on_slow_underlying_agent")
						} else if !r2.faulted && !s.closed && !m.UpLocked {
							// the signer was listed a moment ago; signing through it must work unless the clock rule fires
							mc := m.Clone()
							wo, _, _ := mc.Sign(st.Role, c.isCert(st.Role), c.ident(st.Role, 0, now).YSSHCA, now)
							if wo == shimmodel.OK {
								o.Fail("C10.signer_sig", "signer_cannot_sign", i, "%s: listed signer failed to sign: %v", tag, r2.err)
							}
						}
						res.faulted = res.faulted || r2.faulted
						break
					}
				}
			}
		case "sign":
			var sig *ssh.Signature
			pub := c.pub(st.Role)
			var arg ssh.PublicKey = pub
			if st.Arg == "agentkey" {
				arg = &agent.Key{Format: pub.Type(), Blob: pub.Marshal()}
			}
			dataArg := append([]byte(nil), data...)
			res = s.call(func() error {
				var e error
				sig, e = s.shim.SignWithFlags(arg, dataArg, agent.SignatureFlags(st.Flags))
				return e
			})
			wipe(dataArg) // callers reuse their buffers
			id := c.ident(st.Role, 0, now)
			want, signKeyRole, reason = m.Sign(st.Role, id.IsCert, id.YSSHCA, now)
			if res.err == nil && res.panicked == nil {
				if e := verifySig(pub, data, sig); e != nil {
					res.sigErr = e.Error()
				} else {
					res.sigOK = true
				}
			}
			_ = signKeyRole
		case "add":
			if c.noSign(st.Role) {
				continue // no private key to hand over: such identities only reach the agent directly
			}
			ak := c.added(st.Role, uint32(st.N))
			ak.ConfirmBeforeUse = st.Flags == 1
			res = s.call(func() error { return s.shim.Add(ak) })
			want = m.Add(c.ident(st.Role, uint32(st.N), now), now)
			if res.err == nil && res.panicked == nil && !res.faulted && want == shimmodel.OK {
				// adding has the same effect as on the underlying agent: comment and constraints arrive unchanged
				for _, id := range s.ref.Snapshot() {
					if bytes.Equal(id.Blob, c.pub(st.Role).Marshal()) {
						if id.LifetimeSecs != uint32(st.N) || id.Confirm != ak.ConfirmBeforeUse || id.Comment != ak.Comment {
							o.Fail("C10.effect", "add_constraints_altered", i, "%s: the underlying agent received lifetime=%d confirm=%v comment=%q, the caller gave lifetime=%d confirm=%v comment=%q", tag, id.LifetimeSecs, id.Confirm, id.Comment, st.N, ak.ConfirmBeforeUse, ak.Comment)
						} else {
							o.Probe("add_constraints_pass_through")
						}
					}
				}
			}
		case "addhard":
			res = s.call(func() error { return s.shim.AddHardCert(c.pub(st.Role), st.Arg) })
			hid := c.ident(st.Role, 0, now)
			open := m.ViaCertOnly(hid, now)
			want = m.AddHard(hid, now)
			if open && res.err == nil && res.panicked == nil && !res.faulted {
				// The underlying agent lists only a certificate over this key, not the key: whether the shim accepts is
				// not settled by the property - but it accepted, and for an accepted certificate "signing with it yields
				// a signature that verifies under the certificate's key" is. Ask for one right away.
				o.Probe("accepted_over_key_listed_in_certificate_only")
				probe := []byte("probe after an accepted add of " + st.Role)
				var psig *ssh.Signature
				r2 := s.call(func() error {
					var e error
					psig, e = s.shim.SignWithFlags(c.pub(st.Role), append([]byte(nil), probe...), 0)
					return e
				})
				m.Sign(st.Role, true, hid.YSSHCA, now) // the model follows (a sign request purges)
				if r2.panicked != nil {
					res.panicked, res.stack = r2.panicked, r2.stack
				}
				if !r2.faulted && !s.closed && !m.UpLocked && shimmodel.Validity(hid.VA, hid.VB, now) == shimmodel.Valid {
					if r2.err != nil {
						o.Fail("C10.effect", "accepted_cannot_sign", i, "%s: the certificate was accepted as a hardware certificate, but signing with it fails: %v", tag, r2.err)
					} else if e := verifySig(c.pub(st.Role), probe, psig); e != nil {
						o.Fail("C10.effect", "accepted_cannot_sign", i, "%s: the certificate was accepted as a hardware certificate, but the signature made with it does not verify: %v", tag, e)
					}
				}
				res.faulted = res.faulted || r2.faulted
			}
		case "remove":
			var rarg ssh.PublicKey = c.pub(st.Role)
			if st.Arg == "agentkey" {
				rarg = &agent.Key{Format: rarg.Type(), Blob: rarg.Marshal()}
			}
			res = s.call(func() error { return s.shim.Remove(rarg) })
			want = m.Remove(st.Role, now)
		case "removeall":
			res = s.call(func() error { return s.shim.RemoveAll() })
			want = m.RemoveAll()
		case "close":
			res = s.call(func() error { return s.shim.Close() })
			want = shimmodel.OK
			if m.Locked {
				want = shimmodel.Err
			}
		case "lock":
			pw := []byte(st.Arg)
			res = s.call(func() error { return s.shim.Lock(pw) })
			wipe(pw) // a careful caller wipes the passphrase from its buffer as soon as the call returns
			want = m.Lock(st.Arg)
		case "unlock":
			pw := []byte(st.Arg)
			res = s.call(func() error { return s.shim.Unlock(pw) })
			wipe(pw)
			want = m.Unlock(st.Arg)
		case "ext":
			var out []byte
			res = s.call(func() error {
				var e error
				out, e = s.shim.Extension("echo@verif", []byte(st.Arg))
				return e
			})
			res.bytes = out
			want = shimmodel.OK
			if m.UpLocked {
				want = shimmodel.Either // the upstream answers extensions even when locked in this model; not asserted
			}
		case "forward":
			body := rawBody(st.Arg)
			req := append([]byte{byte(st.N)}, body...)
			var out []byte
			reqArg := append([]byte(nil), req...)
			res = s.call(func() error { var e error; out, e = s.shim.Forward(reqArg); return e })
			wipe(reqArg)
			res.bytes = out
			want = shimmodel.OK
			if res.err == nil && res.panicked == nil && !res.faulted {
				if !bytes.Equal(out, refagent.EchoReply(req)) {
					o.Fail("C10.forward", "forward_bytes", i, "%s: raw request of %d bytes (%x...) relayed/answered as %d bytes (%x...) (the upstream echoes EE||request)", tag, len(req), req[:min(len(req), 24)], len(out), out[:min(len(out), 24)])
				} else {
					o.Probe("forward_relayed")
					// the caller keeps its reply and looks at it again later (after other calls went through the shim)
					s.kept = append(s.kept, keptReply{step: i, got: out, want: append([]byte(nil), out...)})
				}
			}
		default:
			continue
		}

		if len(s.acted) > 0 {
			// What another client added during the call is part of the upstream from then on - for the state before the
			// call as well: the relaxed comparison below must not take it for damage. The call saw the upstream at
			// some moment between "nothing added yet" and "all added": an in-memory certificate that a purge would
			// drop at any of these moments may be gone afterwards.
			s.actMayPurge = map[string]bool{}
			note := func(stt shimmodel.State) {
				pg := stt.Clone()
				pg.Purge(now)
				for _, mc := range stt.Mem {
					if !pg.MemHas(mc.Blob) {
						s.actMayPurge[mc.Blob] = true
					}
				}
			}
			note(pre)
			for _, r := range s.acted {
				for _, stt := range []*shimmodel.State{&pre, m} {
					saveLocked, saveUp := stt.Locked, stt.UpLocked
					stt.Locked, stt.UpLocked = false, false
					stt.Add(c.ident(r, 0, now), now)
					stt.Locked, stt.UpLocked = saveLocked, saveUp
				}
				note(pre)
			}
			if st.Op == "addhard" && !pre.MemHas(st.Role) && !m.MemHas(st.Role) {
				// the certificate may have been accepted on the strength of what was added meanwhile (resync turns the
				// entry into "maybe")
				m.AddHard(c.ident(st.Role, 0, now), now)
			}
			s.acted = nil
		}
		// ---------- verdicts ----------
		got := "ok"
		if res.err != nil {
			got = "err"
		}
		if res.panicked != nil {
			got = "panic"
		}
		o.Logf("%s -> %s keys=%v want=%s faulted=%v", tag, got, res.keys, nameOf(want), res.faulted)
		*sigParts = append(*sigParts, fmt.Sprintf("%s:%s:%s:%v", mode, st.Op, got, res.faulted))
		if res.panicked != nil {
			site := panicSite(res.stack)
			o.Fail("C10.no_crash", site, i, "%s: the shim panicked (%v) [faults fired so far: %v]", tag, res.panicked, s.firedLog)
			return lists
		}
		if st.Op == "close" && !wasLocked && res.err == nil && !s.closed {
			// (also when another client changed the underlying agent meanwhile: the shim's connection is closed now)
			o.Probe("closed_unlocked")
			return lists
		}
		if st.Op == "close" && !wasLocked && !res.faulted && !s.closed {
			// closing an unlocked shim ends the history: the connection to the underlying agent is gone
			if res.err != nil {
				o.Fail("C10.effect", "close_refused", i, "%s: closing an unlocked shim failed: %v", tag, res.err)
			}
			o.Probe("closed_unlocked")
			return lists
		}
		if res.slow && res.err != nil && res.panicked == nil {
			// The underlying agent answered honestly but late and the shim did not wait for it. Giving up on a slow peer
			// is a legitimate policy (the property speaks of failures surfacing as errors, not of unbounded patience) -
			// provided nothing is corrupted: the shim may close the connection, later calls may fail, but no call may
			// succeed with somebody else's answer, sign with what it must not, or unlock with a wrong passphrase.
			s.gaveUp = true
			s.abandoned = append(s.abandoned, st) // the request is still on its way: it takes effect when the agent gets to it
			o.Probe("gave_up_on_slow_underlying_agent")
		}
		if res.faulted || s.closed || s.gaveUp {
			// ---- narrow relaxation after an injected upstream fault ----
			o.Probe("op_under_fault")
			if res.mustFail != "" && res.err == nil && res.panicked == nil {
				o.Fail("C10.swallowed", "failure_swallowed:"+strings.SplitN(res.mustFail, "/", 2)[0], i, "%s: the underlying agent failed a request it would have served (%s) and the call reported success", tag, res.mustFail)
			} else if res.mustFail != "" {
				o.Probe("upstream_failure_surfaced")
			}
			if (st.Op == "list" || st.Op == "signers" || st.Op == "signvia") && res.err == nil && res.panicked == nil && !wasLocked && !s.closed {
				// a faulted call may fail or list less - it never discloses what must not be listed
				for _, e := range res.keys {
					if e == "?" {
						continue
					}
					id := c.ident(e, 0, now)
					if id.IsCert && shimmodel.Validity(id.VA, id.VB, now) == shimmodel.Invalid {
						o.Fail("C07.listed_invalid", "listed_invalid_under_fault:"+c.certs[e].Window, i, "%s: during this call the underlying agent failed a request or was changed by another client (%v); the call succeeded and lists certificate %s (window %s) outside its validity at simulated time +%ds", tag, s.firedLog, e, c.certs[e].Window, now-epoch)
					}
					if id.IsCert && s.model.NoUp && id.YSSHCA && !pre.MemHas(e) {
						o.Fail("C09.hidden_listed", "hidden_listed_under_fault:"+c.certs[e].KeyID, i, "%s: during this call the underlying agent failed a request or was changed by another client (%v); the call succeeded and lists upstream YSSHCA certificate %s in no-upstream mode", tag, s.firedLog, e)
					}
				}
				o.Probe("listing_under_fault_discloses_nothing")
			}
			if st.Op == "forward" && res.err == nil && res.panicked == nil && !res.faulted {
				// (no fault touched this relay itself: it is judged because an earlier call gave up on a slow agent)
				body := rawBody(st.Arg)
				req := append([]byte{byte(st.N)}, body...)
				if !bytes.Equal(res.bytes, refagent.EchoReply(req)) {
					o.Fail("C10.forward", "forward_bytes_under_fault", i, "%s: the relay succeeded with %d bytes (%x...) that are not the answer to this request (the upstream echoes EE||request) [%v]", tag, len(res.bytes), res.bytes[:min(len(res.bytes), 24)], s.firedLog)
				}
			}
			if st.Op == "unlock" && res.err == nil && res.panicked == nil && pre.Locked && want == shimmodel.Err {
				o.Fail("C08.lock_result", "unlock_accepted_under_fault", i, "%s(%q): succeeded with a wrong passphrase on a locked shim [%v]", tag, st.Arg, s.firedLog)
			}
			if st.Op == "sign" && res.err == nil && res.panicked == nil && !wasLocked {
				// ... and no signature with a YSSHCA certificate of the underlying agent in no-upstream mode
				if id := c.ident(st.Role, 0, now); id.IsCert && s.model.NoUp && id.YSSHCA && !pre.MemHas(st.Role) && !m.MemHas(st.Role) {
					o.Fail("C09.sign_hidden", "signed_hidden_under_fault:"+c.certs[st.Role].KeyID, i, "%s: during this call the underlying agent failed a request or was changed by another client (%v); the call returned a signature made with the upstream YSSHCA certificate %s in no-upstream mode", tag, s.firedLog, st.Role)
				}
			}
			if st.Op == "sign" && res.err == nil && res.panicked == nil && !wasLocked {
				// whatever the underlying agent refused meanwhile: no signature with a certificate outside its validity
				if id := c.ident(st.Role, 0, now); id.IsCert && shimmodel.Validity(id.VA, id.VB, now) == shimmodel.Invalid {
					o.Fail("C07.sign_invalid", "signed_invalid_under_fault:"+c.certs[st.Role].Window, i, "%s: during this call the underlying agent failed a request (%v); the call returned a signature made with certificate %s (window %s), which is outside its validity at simulated time +%ds", tag, s.firedLog, st.Role, c.certs[st.Role].Window, now-epoch)
				}
			}
			s.resync(pre, st, o, i, tag, wasLocked, res.err == nil)
			if s.closed {
				o.Probe("ops_after_connection_loss")
			}
			continue
		}
		// lock discipline (C08)
		if wasLocked && st.Op != "unlock" && st.Op != "ext" && st.Op != "forward" {
			if st.Op == "list" {
				if res.err != nil || len(res.keys) != 0 {
					o.Fail("C08.locked_list", "locked_list", i, "%s: a locked shim answered List with %v (err=%v), want an empty list and no error", tag, res.keys, res.err)
				} else {
					o.Probe("locked_list_empty")
				}
			} else if res.err == nil {
				o.Fail("C08.locked_op", "locked_"+st.Op, i, "%s: operation succeeded on a locked shim", tag)
			} else {
				o.Probe("locked_op_refused")
			}
		}
		if st.Op == "lock" || st.Op == "unlock" {
			if want == shimmodel.OK && res.err != nil {
				o.Fail("C08.lock_result", st.Op+"_refused", i, "%s(%q): failed (%v) although the model accepts it", tag, st.Arg, res.err)
			}
			if want == shimmodel.Err && res.err == nil {
				o.Fail("C08.lock_result", st.Op+"_accepted", i, "%s(%q): succeeded although it must fail (shim locked=%v, upstream locked=%v)", tag, st.Arg, pre.Locked, pre.UpLocked)
			}
			if st.Op == "unlock" && want == shimmodel.OK {
				o.Probe("unlocked_with_passphrase")
			}
			if st.Op == "unlock" && want == shimmodel.Err && pre.Locked {
				o.Probe("wrong_passphrase_refused")
			}
		}
		// listings (C07 / C09 / C10)
		if st.Op == "list" || st.Op == "signers" || st.Op == "signvia" {
			if !wasLocked {
				if res.err != nil {
					o.Fail("C10.list", "list_error", i, "%s: failed without a fault: %v", tag, res.err)
				} else {
					s.checkListing(o, i, tag, st.Op, res.keys, wantList, pre, now)
					var hidden []string
					for _, id := range m.Up {
						if id.IsCert && id.YSSHCA {
							hidden = append(hidden, id.Blob)
						}
					}
					sort.Strings(hidden)
					lists = append(lists, obsList{step: i, op: st.Op, roles: res.keys, hidden: hidden, ok: true})
				}
			} else if st.Op != "list" && res.err == nil {
				o.Fail("C08.locked_op", "locked_signers", i, "%s: Signers succeeded on a locked shim", tag)
			}
			// plain-key comments pass through unchanged
			if st.Op == "list" && res.err == nil && !wasLocked {
				for r, cm := range res.comments {
					if !c.isCert(r) && r != "?" && cm != "key "+r {
						o.Fail("C10.list", "comment_changed", i, "%s: comment of plain key %s listed as %q", tag, r, cm)
					}
				}
			}
		}
		if st.Op == "sign" && !wasLocked {
			switch {
			case want == shimmodel.OK && res.err != nil:
				if m.NoUp {
					what := "plain key"
					if c.isCert(st.Role) && pre.MemHas(st.Role) {
						what = "in-memory hardware certificate"
					} else if c.isCert(st.Role) {
						what = "certificate with another KeyID"
					}
					o.Fail("C09.usable", "noup_sign_refused:"+what, i, "%s: no-upstream mode refuses to sign with a %s (%v); only upstream YSSHCA certificates are hidden", tag, what, res.err)
				}
				o.Fail("C10.sign", "sign_refused", i, "%s: signing failed (%v) although the identity is held and valid", tag, res.err)
			case want == shimmodel.Err && res.err == nil:
				switch reason {
				case "purged":
					o.Fail("C07.sign_purged", "sign_with_invalid", i, "%s: signing succeeded with a certificate outside its validity window or without key", tag)
				case "hidden":
					o.Fail("C09.sign_hidden", "sign_hidden", i, "%s: signing succeeded with a hidden upstream YSSHCA certificate in no-upstream mode", tag)
				default:
					o.Fail("C10.sign", "sign_unknown_key", i, "%s: signing succeeded with an identity nobody holds", tag)
				}
			case res.err == nil && !res.sigOK:
				o.Fail("C10.sign", "bad_signature", i, "%s: signature does not verify under the key of %s: %s", tag, st.Role, res.sigErr)
			case res.err == nil:
				o.Probe("sign_verified")
				if c.isCert(st.Role) && pre.Clone().MemHas(st.Role) {
					o.Probe("sign_with_hardware_cert")
				}
			}
			if want == shimmodel.Err && reason == "hidden" && res.err != nil {
				o.Probe("hidden_sign_refused")
				if !strings.Contains(res.err.Error(), "not found") {
					o.Fail("C09.sign_hidden", "hidden_error_text", i, "%s: refusal of a hidden certificate is %q, want a key-not-found error", tag, res.err)
				}
			}
			if want == shimmodel.Err && reason == "purged" && res.err != nil {
				o.Probe("purged_sign_refused")
			}
		}
		if (st.Op == "add" || st.Op == "addhard" || st.Op == "remove" || st.Op == "removeall") && !wasLocked {
			if want == shimmodel.OK && res.err != nil {
				o.Fail("C10.effect", st.Op+"_refused", i, "%s: failed (%v), the model accepts it", tag, res.err)
			}
			if want == shimmodel.Err && res.err == nil {
				o.Fail("C10.effect", st.Op+"_accepted", i, "%s: succeeded, it must be refused", tag)
			}
			if st.Op == "addhard" && want == shimmodel.OK && res.err == nil {
				o.Probe("hardcert_accepted")
			}
			if st.Op == "addhard" && want == shimmodel.Err {
				o.Probe("hardcert_refused")
			}
		}
		if st.Op == "forward" && res.err != nil {
			o.Fail("C10.forward", "forward_refused", i, "%s: a raw request of %d bytes was not relayed: %v", tag, len(rawBody(st.Arg))+1, res.err)
		}
		if st.Op == "ext" && want == shimmodel.OK {
			if res.err != nil || string(res.bytes) != "echo:"+st.Arg {
				o.Fail("C10.forward", "extension", i, "%s: extension answered %q err=%v, want the upstream's echo", tag, res.bytes, res.err)
			}
		}
		// effect on the upstream agent, inspected directly
		gotUp := s.upstreamRoles()
		wantUp := modelUpRoles(m, now)
		if strings.Join(gotUp, ",") != strings.Join(wantUp, ",") {
			missing, extra := diff(gotUp, wantUp, nil)
			key := "upstream_effect"
			oracle := "C10.effect"
			if wasLocked {
				oracle, key = "C08.locked_changed", "locked_upstream_changed"
			} else {
				for _, e := range extra {
					if c.isCert(e) && shimmodel.Validity(c.ident(e, 0, now).VA, c.ident(e, 0, now).VB, now) == shimmodel.Invalid &&
						(st.Op == "list" || st.Op == "signers" || st.Op == "signvia" || st.Op == "sign") {
						oracle, key = "C07.upstream_purged", "upstream_keeps_invalid"
					}
				}
			}
			o.Fail(oracle, key, i, "%s: upstream agent holds %v, expected %v (unexpected %v, missing %v)", tag, gotUp, wantUp, extra, missing)
			// resynchronise so that one divergence is reported once
			s.resyncUp(now)
		}
		if s.ref.IsLocked() != m.UpLocked {
			o.Fail("C08.lock_state", "upstream_lock_state", i, "%s: upstream locked=%v, expected %v", tag, s.ref.IsLocked(), m.UpLocked)
			m.UpLocked = s.ref.IsLocked()
		}
	}
	return lists
}

// rawBody expands "gen:<n>:<seed>" into n pseudo-random bytes (or decodes a hex string).
func rawBody(arg string) []byte {
	var n int
	var seed uint64
	if _, err := fmt.Sscanf(arg, "gen:%d:%d", &n, &seed); err == nil {
		return sim.NewRng(seed).Bytes(n)
	}
	b, _ := hex.DecodeString(arg)
	return b
}

func nameOf(w int) string {
	if w < 0 {
		return "-"
	}
	return outcomeName(w)
}

func findUp(m *shimmodel.State, blob string) int {
	for i, id := range m.Up {
		if id.Blob == blob {
			return i
		}
	}
	return -1
}

// resyncUp makes the model's upstream equal to the real one.
func (s *stack) resyncUp(now int64) {
	var up []shimmodel.Ident
	for _, id := range s.ref.Snapshot() {
		r := s.cat.roleOf(id.Blob)
		mi := s.cat.ident(r, 0, now)
		if !id.Expiry.IsZero() {
			mi.Expiry = id.Expiry.Unix()
		}
		up = append(up, mi)
	}
	s.model.Up = up
	s.model.UpLocked = s.ref.IsLocked()
}

// resync applies the narrow relaxation after a faulted operation: the faulted
// call may have failed or not; the upstream state is taken from reality after
// checking that nothing unexplained happened to it; in-memory certificates stay
// expected unless the faulted call was a removal naming them.
func (s *stack) resync(pre shimmodel.State, st SStep, o *sim.Outcome, i int, tag string, wasLocked bool, callOK bool) {
	now := time.Now().Unix()
	m := &s.model
	real := s.upstreamRoles()
	before := map[string]bool{}
	for _, id := range pre.Up {
		before[id.Blob] = true
	}
	for _, r := range real {
		abandonedAdd := false
		for _, ab := range s.abandoned {
			if ab.Op == "add" && ab.Role == r {
				abandonedAdd = true
			}
		}
		if !before[r] && !(st.Op == "add" && r == st.Role) && !abandonedAdd {
			o.Fail("C10.fault_damage", "fault_added", i, "%s: after a faulted call the upstream holds %s which nobody added", tag, r)
		}
	}
	realSet := map[string]bool{}
	for _, r := range real {
		realSet[r] = true
	}
	for _, id := range pre.Up {
		if realSet[id.Blob] || (id.Expiry != 0 && now >= id.Expiry) {
			continue
		}
		// (an identity with the blob of an in-memory certificate: when the shim drops that certificate - as an orphan,
		// say - it asks the agent to remove the blob as well; another client may have added it there meanwhile)
		explained := st.Op == "removeall" || (st.Op == "remove" && st.Role == id.Blob) ||
			(id.IsCert && shimmodel.Validity(id.VA, id.VB, now) != shimmodel.Valid) ||
			(pre.MemHas(id.Blob) && s.actMayPurge[id.Blob])
		for _, ab := range s.abandoned {
			if ab.Op == "removeall" || (ab.Op == "remove" && ab.Role == id.Blob) {
				explained = true
			}
		}
		if !explained {
			o.Fail("C10.fault_damage", "fault_removed", i, "%s: after a faulted call the upstream lost %s", tag, id.Blob)
		}
	}
	// in-memory part: start from the pre-state, apply what may have happened
	mem := pre.Clone().Mem
	purged := pre.Clone()
	purged.Purge(now)
	for k := range mem {
		if st.Op == "removeall" || (st.Op == "remove" && st.Role == mem[k].Blob) {
			mem[k].State = shimmodel.Maybe
		}
		if !purged.MemHas(mem[k].Blob) || s.actMayPurge[mem[k].Blob] {
			// the faulted call may or may not have purged it already (it is purged at the next call at the latest)
			mem[k].State = shimmodel.Maybe
		}
	}
	if st.Op == "addhard" && pre.Clone().MemHas(st.Role) == false {
		// may or may not have been accepted
		for _, mc := range m.Mem {
			if mc.Blob == st.Role {
				mc.State = shimmodel.Maybe
				mem = append(mem, mc)
			}
		}
	}
	m.Mem = mem
	s.actMayPurge = nil
	sort.Slice(m.Mem, func(a, b int) bool { return m.Mem[a].Blob < m.Mem[b].Blob })
	s.resyncUp(now)
	switch {
	case !s.ref.IsLocked():
		m.UpPass = ""
	case pre.UpLocked:
		m.UpPass = pre.UpPass
	default:
		m.UpPass = st.Arg // the lock request was processed although its reply was lost
	}
	// the shim's own lock flag: a refused or failed lock/unlock leaves it unchanged
	m.Locked = pre.Locked
	if callOK && st.Op == "lock" {
		m.Locked = true
	}
	if callOK && st.Op == "unlock" {
		m.Locked = false
	}
	// (the upstream may have processed a lock / unlock whose reply was then damaged: its state is taken from
	// reality above, the shim's flag follows what the shim was told)
}

func (s *stack) checkListing(o *sim.Outcome, i int, tag, op string, got []string, want shimmodel.Listing, pre shimmodel.State, now int64) {
	missing, extra := diff(got, want.Must, want.May)
	c := s.cat
	for _, e := range extra {
		id := c.ident(e, 0, now)
		switch {
		case e == "?":
			o.Fail("C10.list", "unknown_blob", i, "%s: listing contains an identity nobody added (blob altered?)", tag)
		case id.IsCert && shimmodel.Validity(id.VA, id.VB, now) == shimmodel.Invalid:
			o.Fail("C07.listed_invalid", "listed_invalid:"+c.certs[e].Window, i, "%s: listing contains certificate %s (window %s) outside its validity at simulated time +%ds", tag, e, c.certs[e].Window, now-epoch)
		case id.IsCert && pre.MemHas(e) && !s.model.MemHas(e):
			o.Fail("C07.orphan_listed", "orphan_listed", i, "%s: in-memory certificate %s is listed although the upstream reports keys and lacks its key %s", tag, e, id.KeyBlob)
		case id.IsCert && s.model.NoUp && id.YSSHCA:
			o.Fail("C09.hidden_listed", "hidden_listed:"+c.certs[e].KeyID, i, "%s: no-upstream mode lists upstream YSSHCA certificate %s (KeyID class %s)", tag, e, c.certs[e].KeyID)
		default:
			o.Fail("C10.list", "duplicate_or_extra", i, "%s: listing contains %s more often than held (got %v)", tag, e, got)
		}
	}
	for _, e := range missing {
		id := c.ident(e, 0, now)
		switch {
		case id.IsCert && s.model.MemHas(e) && s.model.UpstreamEmpty(now):
			o.Fail("C07.mem_dropped", "mem_dropped_on_empty", i, "%s: in-memory certificate %s vanished although the upstream reported an empty list", tag, e)
		case id.IsCert && s.model.MemHas(e):
			kind := "mem_lost"
			if c.certs[e].Window == "forever" || c.certs[e].Window == "above_maxint" {
				o.Fail("C07.forever", "forever_expired", i, "%s: in-memory certificate %s with unlimited validity is no longer listed", tag, e)
			}
			o.Fail("C10.list", kind, i, "%s: in-memory certificate %s is not listed (got %v)", tag, e, got)
		case id.IsCert && (c.certs[e].Window == "forever" || c.certs[e].Window == "above_maxint"):
			o.Fail("C07.forever", "forever_expired", i, "%s: certificate %s with unlimited validity is no longer listed", tag, e)
			o.Fail("C10.list", "upstream_lost", i, "%s: upstream identity %s is not listed (got %v)", tag, e, got)
		case s.model.NoUp && !(id.IsCert && id.YSSHCA):
			o.Fail("C09.overhidden", "overhidden", i, "%s: no-upstream mode hides %s which is not an upstream YSSHCA certificate", tag, e)
			o.Fail("C10.list", "upstream_lost", i, "%s: upstream identity %s is not listed (got %v)", tag, e, got)
		default:
			o.Fail("C10.list", "upstream_lost", i, "%s: upstream identity %s is not listed (got %v)", tag, e, got)
		}
	}
	if len(missing) == 0 && len(extra) == 0 {
		o.Probe("listing_agrees")
	}
}

func panicSite(stack []byte) string {
	lines := strings.Split(string(stack), "\n")
	seen := false
	for _, l := range lines {
		if strings.HasPrefix(l, "panic(") {
			seen = true
			continue
		}
		if !seen || strings.HasPrefix(l, "\t") || l == "" || strings.HasPrefix(l, "runtime.") {
			continue
		}
		if i := strings.LastIndex(l, "("); i > 0 {
			l = l[:i]
		}
		return l
	}
	return "unknown"
}

func execS(t *testing.T, raw json.RawMessage) *sim.Outcome {
	o := &sim.Outcome{}
	var p SPlan
	if err := json.Unmarshal(raw, &p); err != nil {
		o.Fail("harness.plan", "unmarshal", 0, "%v", err)
		return o
	}
	if p.Construct != "" {
		return execConstruct(t, &p)
	}
	var sig []string
	var l1, l2 []obsList
	prelude := func(mainNoUp bool, o *sim.Outcome) {
		if p.Prelude == "" {
			return
		}
		// another instance first, judged like any history; its faults are not part of the judged one
		q := p
		q.Faults = nil
		var psig []string
		runHistory(&q, mainNoUp != (p.Prelude == "other"), o, &psig)
		o.Probe("history_after_another_instance")
	}
	fail := sim.InBubble(t, func() {
		prelude(p.NoUp, o)
		l1 = runHistory(&p, p.NoUp, o, &sig)
		o.SimTimeS += sim.SimNow()
	})
	if fail != "" {
		failBubble(o, fail)
		if !sim.LeftoverOnly(fail) {
			return o
		}
	}
	if p.Dual && len(p.Faults) == 0 {
		o2 := &sim.Outcome{}
		fail := sim.InBubble(t, func() {
			prelude(!p.NoUp, o2)
			l2 = runHistory(&p, !p.NoUp, o2, &sig)
		})
		if fail != "" {
			failBubble(o, fail)
			if !sim.LeftoverOnly(fail) {
				return o
			}
		}
		o.All = append(o.All, o2.All...)
		for k, v := range o2.Probes {
			for j := 0; j < v; j++ {
				o.Probe(k)
			}
		}
		o.Evaluations = 2
		noup, up := l1, l2
		if !p.NoUp {
			noup, up = l2, l1
		}
		// differential oracle: no-upstream listing == full listing minus upstream YSSHCA certificates
		byStep := map[int]obsList{}
		for _, l := range up {
			byStep[l.step] = l
		}
		for _, l := range noup {
			u, ok := byStep[l.step]
			if !ok {
				continue
			}
			hidden := map[string]int{}
			for _, h := range l.hidden {
				hidden[h]++
			}
			// in-memory certificates are never subtracted: they appear in both listings on top of the upstream ones
			want := subtractHidden(u.roles, l.roles, hidden)
			if strings.Join(want, ",") != strings.Join(l.roles, ",") {
				o.Fail("C09.differential", "differential", l.step, "step %d %s: no-upstream mode lists %v, the other mode lists %v, upstream YSSHCA certificates are %v", l.step, l.op, l.roles, u.roles, l.hidden)
			} else if len(l.hidden) > 0 {
				o.Probe("differential_hidden_some")
			}
		}
	}
	o.Signature = strings.Join(sig, ",")
	return o
}

// subtractHidden is multiset subtraction: the full listing minus one occurrence
// of every hidden upstream certificate (an in-memory certificate with the same
// blob stays listed).
func subtractHidden(full, noup []string, hidden map[string]int) []string {
	var out []string
	left := map[string]int{}
	for k, v := range hidden {
		left[k] = v
	}
	for _, r := range full {
		if left[r] > 0 {
			left[r]--
			continue
		}
		out = append(out, r)
	}
	sort.Strings(out)
	return out
}

// failBubble classifies the failure of a bubble: a deadlock (every goroutine of the simulated world blocked
// for ever) means an operation of the code under test never completed.
func failBubble(o *sim.Outcome, fail string) {
	if sim.LeftoverOnly(fail) {
		// (callers go on with their oracles: see sim.LeftoverOnly)
		o.Probe("goroutines_left_after_the_last_operation")
		return
	}
	if strings.Contains(fail, "deadlock") {
		o.Fail("any.stalled", "stalled", 0, "the simulated world came to a standstill: an operation never completed (%s)", fail)
		return
	}
	o.Fail("harness.bubble", "bubble", 0, "%s", fail)
}
