package worldg

import (
	"encoding/json"
	"fmt"
	"os"
	"strings"
	"sync"
	"testing"

	"verifsim/keys"
	"verifsim/refagent"
	"verifsim/sim"
)

func tmpRoot() string {
	if d := os.Getenv("VERIF_TMP"); d != "" {
		return d
	}
	return os.TempDir()
}

// runWorld executes a whole plan once in a fresh bubble. extra applies to the
// last run only (C04 placements).
// noBubble: the next runWorld executes outside a bubble (warm-up only; real clock, no waiting for the simulated agent).
var noBubble bool

// warmUpG: one honest request, outside any bubble (sim.Spec.WarmUp).
func warmUpG(t *testing.T) {
	p := &GPlan{Users: []GUser{{Name: "warmup", KeyKind: "ed25519", Dir: "pub"}}, AgentKeys: []string{"warmup"}, ValiditySec: 3600,
		KeyIDs: map[string]string{"default": "slot-warmup"},
		Runs: []GRun{{LogName: "warmup", ReqUser: "warmup", ReqHost: "host.example.com", IP: "1.2.3.4", Policy: "NONS", CAAlgo: -1,
			Handlers: []string{"regular"}, Agent: "honest", CA: GCA{Mode: "ok", NCerts: 1, FailAt: -1}, StubCSRs: 1}}}
	noBubble = true
	defer func() { noBubble = false }()
	runWorld(t, &sim.Outcome{}, p, newFresh(), "warm-up", noExtra(), false)
}

func runWorld(t *testing.T, o *sim.Outcome, p *GPlan, fr *fresh, exec string, extra extraFault, check bool) *world {
	dir, err := os.MkdirTemp(tmpRoot(), "g-")
	if err != nil {
		o.Fail("harness.tmp", "mkdtemp", 0, "%v", err)
		return nil
	}
	defer os.RemoveAll(dir)
	keys.ResetRSA()
	w := &world{plan: p, dir: dir, oldSig: map[string][]byte{}}
	inBubble := sim.InBubble
	if noBubble {
		inBubble = func(t *testing.T, f func()) string { f(); return "" }
	}
	fail := inBubble(t, func() {
		if err := w.setupDir(); err != nil {
			o.Fail("harness.setup", "dir", 0, "%v", err)
			return
		}
		w.setupAgent()
		first := 0
		if p.Overlap && len(p.Runs) >= 2 && !p.Enum {
			// two requests in one process at the same time (DESIGN 14.2): run 0 waits for its agent at request
			// OverlapAt, run 1 is served completely in a sibling world (own forwarded agent, own connection, same
			// configuration object, same key directory, same process), then run 0 goes on
			wB := &world{plan: p, dir: dir, oldSig: map[string][]byte{}, conf: w.conf, confErr: w.confErr}
			if p.OverlapBNoKey {
				wB.withoutKeyOf = p.Runs[1].LogName
			}
			wB.setupAgent()
			gate := make(chan struct{})
			reachedCh := make(chan struct{})
			var once sync.Once
			reached := func() { once.Do(func() { close(reachedCh) }) }
			exA := noExtra()
			exA.gateAt, exA.gate, exA.reached = p.OverlapAt, gate, reached
			var obA *runObs
			doneA := make(chan struct{})
			go func() {
				defer close(doneA)
				obA = w.doRun(&p.Runs[0], exA)
				reached() // (fewer requests than OverlapAt: the two requests then follow each other)
			}()
			<-reachedCh
			select {
			case <-doneA:
			default:
				o.Probe("two_requests_in_one_process_at_the_same_time")
			}
			obB := wB.doRun(&p.Runs[1], noExtra())
			if check {
				// judged at once: run 0 may still take hours of simulated time (a slow CA), and what run 1
				// provisioned has a finite lifetime in its agent
				checkRun(o, wB, 1, &p.Runs[1], obB, fr, exec)
			}
			close(gate)
			<-doneA
			w.runs = append(w.runs, obB)
			if check {
				checkRun(o, w, 0, &p.Runs[0], obA, fr, exec)
			}
			wB.closeShared()
			first = 2
		}
		for i := range p.Runs {
			if i < first {
				continue
			}
			run := &p.Runs[i]
			ex := noExtra()
			if i == len(p.Runs)-1 {
				ex = extra
			}
			ob := w.doRun(run, ex)
			if check {
				checkRun(o, w, i, run, ob, fr, exec)
			}
			for _, f := range ob.faults {
				o.Fault(strings.SplitN(f.site, ":", 2)[0] + "/" + f.fault)
			}
			if run.AdvanceS > 0 {
				o.Fault("clock_jump")
			}
			if run.Agent != "honest" && len(ob.signs) > 0 {
				o.Fault("agent_behaviour/" + run.Agent)
			}
			if ob.reusedHandler {
				o.Probe("request_served_by_handler_of_earlier_request")
			}
		}
		w.closeShared()
		o.SimTimeS += sim.SimNow()
	})
	if fail != "" {
		failBubble(o, fail)
	}
	return w
}

func signatureOf(w *world) string {
	var parts []string
	for i, ob := range w.runs {
		run := w.plan.Runs[i]
		var fs []string
		for _, f := range ob.faults {
			fs = append(fs, f.site+"/"+f.fault+"@"+f.phase)
		}
		parts = append(parts, fmt.Sprintf("%v|%s|%s|%s|%v|%s|%v|ca=%d/%s", run.Handlers, run.Agent, dirOf(w, run.LogName), run.Policy, run.HardKey,
			errKind(ob.result), fs, run.CA.NCerts, run.CA.Mode))
	}
	return strings.Join(parts, ";")
}

func execG(twice bool) func(t *testing.T, raw json.RawMessage) *sim.Outcome {
	return func(t *testing.T, raw json.RawMessage) *sim.Outcome {
		o := &sim.Outcome{}
		var p GPlan
		if err := json.Unmarshal(raw, &p); err != nil {
			o.Fail("harness.plan", "unmarshal", 0, "%v", err)
			return o
		}
		if p.Enum {
			return execEnum(t, &p)
		}
		fr := newFresh()
		w := runWorld(t, o, &p, fr, "first execution", noExtra(), true)
		if w == nil {
			return o
		}
		o.Signature = signatureOf(w)
		if twice {
			// A second execution of the same plan in a fresh bubble starts at the same
			// simulated instant: anything derived from the clock instead of entropy repeats.
			o2 := &sim.Outcome{}
			runWorld(t, o2, &p, fr, "second execution, fresh bubble", noExtra(), true)
			for _, v := range o2.All {
				if strings.HasSuffix(v.Oracle, ".fresh") || v.Oracle == "C02.key" || v.Oracle == "C02.transid" || strings.HasPrefix(v.Oracle, "harness.") {
					o.All = append(o.All, v)
				}
			}
			o.Evaluations = 2
		}
		return o
	}
}

// ---- C04: single-fault enumeration ----------------------------------------

// enumRefKind: the kind of error the fault-free reference execution of the scenario being enumerated ended with ("": it
// succeeded, or no enumeration is in progress).
var enumRefKind string

var enumAgentFaults = append(append([]string(nil), refagent.AllFaults...), refagent.FaultFailSame, refagent.FaultCloseLost)

func execEnum(t *testing.T, p *GPlan) *sim.Outcome {
	o := &sim.Outcome{}
	failing = nil
	last := len(p.Runs) - 1
	// reference execution, no extra fault
	ref := &sim.Outcome{}
	w := runWorld(t, ref, p, newFresh(), "reference", noExtra(), true)
	o.All = append(o.All, ref.All...)
	o.Evaluations = 1
	if w == nil || len(w.runs) <= last {
		return o
	}
	rob := w.runs[last]
	n, m := rob.agentReqs, rob.caCalls
	o.Logf("reference: result=%s agent_requests=%d signer_calls=%d kinds=%v", errKind(rob.result), n, m, rob.reqKinds)
	// The execution without any injected fault may already end in an error of its own kind (an RA that does not wait
	// for a slow CA, an unconfigured algorithm): with a fault injected that outcome stays possible.
	enumRefKind = ""
	if rob.result != nil {
		enumRefKind = errKind(rob.result)
	}
	defer func() { enumRefKind = "" }()
	var places []Placement
	for i := 0; i < n; i++ {
		for _, f := range enumAgentFaults {
			places = append(places, Placement{Site: "agent", Index: i, Fault: f})
		}
	}
	for j := 0; j < m; j++ {
		places = append(places, Placement{Site: "signer", Index: j, Fault: "error"}, Placement{Site: "signer", Index: j, Fault: "panic"})
	}
	hasStub := false
	for _, h := range p.Runs[last].Handlers {
		if strings.HasPrefix(h, "stub:") {
			hasStub = true
		}
	}
	if hasStub {
		for _, meth := range []string{"Name", "Generate", "CSRs", "AddCertsToAgent"} {
			places = append(places, Placement{Site: "stub", Fault: meth})
		}
		for k := 1; k <= max(1, p.Runs[last].StubKeys); k++ {
			places = append(places, Placement{Site: "stub", Fault: fmt.Sprintf("addfail:%d", k)})
		}
	}
	if p.Only != nil {
		places = []Placement{*p.Only}
	}
	var sigs []string
	for _, pl := range places {
		ex := noExtra()
		switch pl.Site {
		case "agent":
			ex.agentAt, ex.agentFault = pl.Index, pl.Fault
		case "signer":
			ex.signerAt, ex.signerPan = pl.Index, pl.Fault == "panic"
		case "stub":
			ex.stubPanic = pl.Fault
		}
		po := &sim.Outcome{}
		pw := runWorld(t, po, p, newFresh(), fmt.Sprintf("placement %s[%d]=%s", pl.Site, pl.Index, pl.Fault), ex, true)
		o.Evaluations++
		for k, v := range po.Faults {
			for i := 0; i < v; i++ {
				o.Fault(k)
			}
		}
		kind := "?"
		if pw != nil && len(pw.runs) > last {
			kind = errKind(pw.runs[last].result)
			if len(pw.runs[last].faults) > 0 {
				o.Probe("placement_fired")
			} else {
				o.Probe("placement_not_reached")
			}
		}
		sigs = append(sigs, fmt.Sprintf("%s[%d]=%s->%s", pl.Site, pl.Index, pl.Fault, kind))
		if pl.Site == "agent" && pl.Index < len(rob.reqKinds) {
			o.ExtraSigs = append(o.ExtraSigs, fmt.Sprintf("%v|%s:%s=%s->%s", p.Runs[last].Handlers, rob.reqKinds[pl.Index], phaseAt(pw, last), pl.Fault, kind))
		} else {
			o.ExtraSigs = append(o.ExtraSigs, fmt.Sprintf("%v|%s=%s->%s", p.Runs[last].Handlers, pl.Site, pl.Fault, kind))
		}
		o.Logf("placement %s[%d]=%s -> %s", pl.Site, pl.Index, pl.Fault, kind)
		if len(po.All) > 0 {
			for _, v := range po.All {
				vv := *v
				vv.Detail = fmt.Sprintf("[placement %s[%d]=%s] %s", pl.Site, pl.Index, pl.Fault, v.Detail)
				o.All = append(o.All, &vv)
			}
			// remember the failing placement for minimisation
			if o.Probes == nil {
				o.Probes = map[string]int{}
			}
			failing = append(failing, pl)
		}
	}
	o.Signature = signatureOf(w) + "||" + strings.Join(sigs, ",")
	return o
}

// failing placements of the most recent enumeration (consumed by shrinkEnum).
var failing []Placement

func genEnum(r *sim.Rng, tier string) any {
	p := genWorld(r, false, 0, 1)
	// make the scenario succeed fault-free: registered user, agent holds the key, configured slot
	p.Users[0].Dir = pick(r, []string{"pub", "bare", "both_same"})
	p.AgentKeys = []string{p.Users[0].Name}
	p.KeyIDs = map[string]string{"default": "slot-default"}
	mk := func() GRun {
		return GRun{LogName: p.Users[0].Name, ReqUser: p.Users[0].Name, ReqHost: "host.example.com", IP: "1.2.3.4", Policy: "NONS",
			CAAlgo: -1, Handlers: []string{"regular"}, Agent: "honest", StubCSRs: r.Range(1, 3),
			CA: GCA{Mode: "ok", NCerts: pick(r, []int{1, 1, 2, 3}), FailAt: -1}}
	}
	p.Runs = nil
	for i := 0; i < r.Range(0, 2); i++ {
		p.Runs = append(p.Runs, mk())
	}
	lastRun := mk()
	lastRun.Handlers = pick(r, [][]string{{"regular"}, {"regular"}, {"stub:fail", "regular"}, {"stub:ok"}, {"regular", "stub:ok"}, {"stub:fail", "stub:ok"},
		{"stub:fail_disabled"}, {"stub:fail_disabled", "stub:fail_typed"}, {"stub:fail_typed", "stub:fail"}, {"stub:fail_disabled", "regular"}})
	lastRun.StubKeys = r.Range(1, 3)
	if r.Bool(0.25) {
		// a CA that answers (or fails) only after the caller's 60 s deadline has passed, or just before it
		lastRun.CA.DelaySec = int64(pick(r, []int{59, 61, 61, 3600}))
	}
	for i := 0; i < r.Range(0, 2); i++ {
		lastRun.CA.Comments = append(lastRun.CA.Comments, pick(r, []string{"", "c1"}))
	}
	p.Runs = append(p.Runs, lastRun)
	p.Enum = true
	return p
}

func shrinkEnum(raw json.RawMessage) []json.RawMessage {
	var p GPlan
	if json.Unmarshal(raw, &p) != nil || !p.Enum {
		return shrinkG(raw)
	}
	var out []json.RawMessage
	if p.Only == nil {
		for _, pl := range failing {
			q := p
			c := pl
			q.Only = &c
			b, _ := json.Marshal(q)
			out = append(out, b)
		}
	}
	if len(p.Runs) > 1 {
		q := p
		q.Runs = p.Runs[1:]
		b, _ := json.Marshal(q)
		out = append(out, b)
	}
	if len(p.PreIDs) > 0 {
		q := p
		q.PreIDs = nil
		b, _ := json.Marshal(q)
		out = append(out, b)
	}
	return out
}

func genFor(odd bool, faultRate float64, maxRuns int) func(r *sim.Rng, tier string) any {
	return func(r *sim.Rng, tier string) any {
		// fault-free and faulty configurations are generated separately
		fr := faultRate
		if r.Bool(0.4) {
			fr = 0
		}
		return genWorld(r, odd, fr, maxRuns)
	}
}

// Specs of the gensign world.
var Specs = []*sim.Spec{
	{Property: "C01", World: "G", WarmUp: warmUpG, Generate: genFor(false, 0.25, 6), Execute: execG(true), Shrink: shrinkG},
	{Property: "C02", World: "G", WarmUp: warmUpG, Generate: genFor(true, 0.15, 4), Execute: execG(true), Shrink: shrinkG},
	{Property: "C03", World: "G", WarmUp: warmUpG, Generate: genFor(false, 0.35, 6), Execute: execG(false), Shrink: shrinkG},
	{Property: "C04", World: "G", WarmUp: warmUpG, Generate: genEnum, Execute: execG(false), Shrink: shrinkEnum},
}

func phaseAt(w *world, last int) string {
	if w == nil || len(w.runs) <= last || len(w.runs[last].faults) == 0 {
		return "-"
	}
	return w.runs[last].faults[0].phase
}

// failBubble classifies the failure of a bubble: a deadlock (every goroutine of the simulated world blocked
// for ever) means an operation of the code under test never completed.
func failBubble(o *sim.Outcome, fail string) {
	if sim.LeftoverOnly(fail) {
		// (callers go on with their oracles: see sim.LeftoverOnly)
		o.Probe("goroutines_left_after_the_last_operation")
		return
	}
	if strings.Contains(fail, "deadlock") {
		o.Fail("any.stalled", "stalled", 0, "the simulated world came to a standstill: an operation never completed (%s)", fail)
		return
	}
	o.Fail("harness.bubble", "bubble", 0, "%s", fail)
}
