// Placeholder that marks the module root. The real go.mod used for builds is
// generated from /repo/go.mod by /verif/check into /verif/build/<variant>/go.mod
// and passed with -modfile (see DESIGN.md 2.5).
module verifsim

go 1.26
