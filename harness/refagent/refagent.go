// Package refagent is the reference model of an ssh-agent: an ordered list of
// identities with lifetimes on the simulated clock, a lock flag and a
// passphrase. It is both the simulated upstream / forwarded agent and the
// oracle's view of it (the harness inspects it directly).
package refagent

import (
	"bytes"
	"crypto"
	"crypto/ed25519"
	"crypto/rand"
	"crypto/subtle"
	"errors"
	"fmt"
	"sync"
	"time"

	"golang.org/x/crypto/ssh"
	"golang.org/x/crypto/ssh/agent"
)

// Identity is one entry of the agent.
type Identity struct {
	Blob         []byte
	Format       string
	Comment      string
	Signer       ssh.Signer // signs with the private key (for certificates: the certified key)
	Cert         *ssh.Certificate
	LifetimeSecs uint32
	Confirm      bool
	Expiry       time.Time // zero: never
	Gen          int       // harness bookkeeping: insertion sequence number
	NoSign       bool      // the agent lists it but cannot sign with it here (e.g. a security-key identity)
}

// Event is one request seen by the agent model.
type Event struct {
	Kind    string // list, sign, add, remove, removeall, lock, unlock, ext
	Blob    []byte
	Data    []byte
	Flags   agent.SignatureFlags
	OK      bool
	Added   *Identity
	Comment string
}

// Agent implements agent.ExtendedAgent.
type Agent struct {
	mu     sync.Mutex
	ids    []*Identity
	locked bool
	pass   []byte
	seq    int
	Events []Event
	// Now is the clock; time.Now inside a bubble is the simulated clock.
	Now func() time.Time
}

// New returns an empty agent.
func New() *Agent { return &Agent{Now: time.Now} }

func (a *Agent) purge() {
	now := a.Now()
	out := a.ids[:0]
	for _, id := range a.ids {
		if !id.Expiry.IsZero() && !now.Before(id.Expiry) {
			continue
		}
		out = append(out, id)
	}
	for i := len(out); i < len(a.ids); i++ {
		a.ids[i] = nil
	}
	a.ids = out
}

func (a *Agent) rec(e Event) { a.Events = append(a.Events, e) }

// Snapshot returns the live identities (bypassing the lock), oldest first.
func (a *Agent) Snapshot() []*Identity {
	a.mu.Lock()
	defer a.mu.Unlock()
	a.purge()
	return append([]*Identity(nil), a.ids...)
}

// IsLocked reports the lock flag.
func (a *Agent) IsLocked() bool {
	a.mu.Lock()
	defer a.mu.Unlock()
	return a.locked
}

// EventCount returns the number of requests seen.
func (a *Agent) EventCount() int {
	a.mu.Lock()
	defer a.mu.Unlock()
	return len(a.Events)
}

// EventsSince returns a copy of the events from index n on.
func (a *Agent) EventsSince(n int) []Event {
	a.mu.Lock()
	defer a.mu.Unlock()
	if n > len(a.Events) {
		n = len(a.Events)
	}
	return append([]Event(nil), a.Events[n:]...)
}

// DirectRemove removes an identity behind the client's back. It reports
// whether something was removed.
func (a *Agent) DirectRemove(blob []byte) bool {
	a.mu.Lock()
	defer a.mu.Unlock()
	for i, id := range a.ids {
		if bytes.Equal(id.Blob, blob) {
			a.ids = append(a.ids[:i:i], a.ids[i+1:]...)
			return true
		}
	}
	return false
}

// DirectAddListing inserts an identity that is listed but cannot sign (format + blob + comment).
func (a *Agent) DirectAddListing(format string, blob []byte, comment string, cert *ssh.Certificate) {
	a.mu.Lock()
	defer a.mu.Unlock()
	a.seq++
	id := &Identity{Blob: blob, Format: format, Comment: comment, Cert: cert, NoSign: true, Gen: a.seq}
	if old := a.find(blob); old != nil {
		*old = *id
		return
	}
	a.ids = append(a.ids, id)
}

// DirectLock sets the lock flag behind the client's back.
func (a *Agent) DirectLock(locked bool, pass []byte) {
	a.mu.Lock()
	defer a.mu.Unlock()
	a.locked = locked
	a.pass = append([]byte(nil), pass...)
}

// DirectAdd inserts an identity behind the client's back.
func (a *Agent) DirectAdd(k agent.AddedKey) error {
	a.mu.Lock()
	defer a.mu.Unlock()
	_, err := a.add(k)
	return err
}

func (a *Agent) find(blob []byte) *Identity {
	for _, id := range a.ids {
		if bytes.Equal(id.Blob, blob) {
			return id
		}
	}
	return nil
}

// List implements agent.Agent. A locked agent lists nothing.
func (a *Agent) List() ([]*agent.Key, error) {
	a.mu.Lock()
	defer a.mu.Unlock()
	a.purge()
	a.rec(Event{Kind: "list", OK: true})
	if a.locked {
		return nil, nil
	}
	var out []*agent.Key
	for _, id := range a.ids {
		out = append(out, &agent.Key{Format: id.Format, Blob: id.Blob, Comment: id.Comment})
	}
	return out, nil
}

func (a *Agent) Sign(key ssh.PublicKey, data []byte) (*ssh.Signature, error) {
	return a.SignWithFlags(key, data, 0)
}

func (a *Agent) SignWithFlags(key ssh.PublicKey, data []byte, flags agent.SignatureFlags) (*ssh.Signature, error) {
	a.mu.Lock()
	defer a.mu.Unlock()
	a.purge()
	blob := key.Marshal()
	ev := Event{Kind: "sign", Blob: blob, Data: append([]byte(nil), data...), Flags: flags}
	if a.locked {
		a.rec(ev)
		return nil, errors.New("refagent: locked")
	}
	id := a.find(blob)
	if id == nil {
		a.rec(ev)
		return nil, errors.New("refagent: key not found")
	}
	if id.NoSign {
		a.rec(ev)
		return nil, errors.New("refagent: the device of this key is not attached")
	}
	var sig *ssh.Signature
	var err error
	if flags != 0 {
		if as, ok := id.Signer.(ssh.AlgorithmSigner); ok {
			algo := ""
			switch flags {
			case agent.SignatureFlagRsaSha256:
				algo = ssh.KeyAlgoRSASHA256
			case agent.SignatureFlagRsaSha512:
				algo = ssh.KeyAlgoRSASHA512
			}
			if id.Signer.PublicKey().Type() != ssh.KeyAlgoRSA {
				algo = ""
			}
			if algo != "" {
				sig, err = as.SignWithAlgorithm(rand.Reader, data, algo)
			} else {
				sig, err = id.Signer.Sign(rand.Reader, data)
			}
		} else {
			sig, err = id.Signer.Sign(rand.Reader, data)
		}
	} else {
		sig, err = id.Signer.Sign(rand.Reader, data)
	}
	ev.OK = err == nil
	a.rec(ev)
	return sig, err
}

func (a *Agent) add(k agent.AddedKey) (*Identity, error) {
	var cs crypto.Signer
	switch p := k.PrivateKey.(type) {
	case *ed25519.PrivateKey:
		cs = *p
	case ed25519.PrivateKey:
		cs = p
	case crypto.Signer:
		cs = p
	default:
		return nil, fmt.Errorf("refagent: unsupported key type %T", k.PrivateKey)
	}
	s, err := ssh.NewSignerFromSigner(cs)
	if err != nil {
		return nil, err
	}
	id := &Identity{Signer: s, Comment: k.Comment, LifetimeSecs: k.LifetimeSecs, Confirm: k.ConfirmBeforeUse}
	if k.Certificate != nil {
		if !bytes.Equal(k.Certificate.Key.Marshal(), s.PublicKey().Marshal()) {
			return nil, errors.New("refagent: certificate does not match private key")
		}
		id.Cert = k.Certificate
		id.Blob = k.Certificate.Marshal()
		id.Format = k.Certificate.Type()
	} else {
		id.Blob = s.PublicKey().Marshal()
		id.Format = s.PublicKey().Type()
	}
	if k.LifetimeSecs != 0 {
		id.Expiry = a.Now().Add(time.Duration(k.LifetimeSecs) * time.Second)
	}
	a.seq++
	id.Gen = a.seq
	// Same blob replaces the old identity in place (as OpenSSH does).
	if old := a.find(id.Blob); old != nil {
		*old = *id
		return old, nil
	}
	a.ids = append(a.ids, id)
	return id, nil
}

func (a *Agent) Add(k agent.AddedKey) error {
	a.mu.Lock()
	defer a.mu.Unlock()
	a.purge()
	if a.locked {
		a.rec(Event{Kind: "add", Comment: k.Comment})
		return errors.New("refagent: locked")
	}
	id, err := a.add(k)
	ev := Event{Kind: "add", OK: err == nil, Comment: k.Comment}
	if id != nil {
		cp := *id
		ev.Added = &cp
		ev.Blob = id.Blob
	}
	a.rec(ev)
	return err
}

func (a *Agent) Remove(key ssh.PublicKey) error {
	a.mu.Lock()
	defer a.mu.Unlock()
	a.purge()
	blob := key.Marshal()
	ev := Event{Kind: "remove", Blob: blob}
	if a.locked {
		a.rec(ev)
		return errors.New("refagent: locked")
	}
	for i, id := range a.ids {
		if bytes.Equal(id.Blob, blob) {
			a.ids = append(a.ids[:i:i], a.ids[i+1:]...)
			ev.OK = true
			a.rec(ev)
			return nil
		}
	}
	a.rec(ev)
	return errors.New("refagent: key not found")
}

func (a *Agent) RemoveAll() error {
	a.mu.Lock()
	defer a.mu.Unlock()
	if a.locked {
		a.rec(Event{Kind: "removeall"})
		return errors.New("refagent: locked")
	}
	a.ids = nil
	a.rec(Event{Kind: "removeall", OK: true})
	return nil
}

func (a *Agent) Lock(pass []byte) error {
	a.mu.Lock()
	defer a.mu.Unlock()
	if a.locked {
		a.rec(Event{Kind: "lock"})
		return errors.New("refagent: already locked")
	}
	a.locked = true
	a.pass = append([]byte(nil), pass...)
	a.rec(Event{Kind: "lock", OK: true})
	return nil
}

func (a *Agent) Unlock(pass []byte) error {
	a.mu.Lock()
	defer a.mu.Unlock()
	if !a.locked {
		a.rec(Event{Kind: "unlock"})
		return errors.New("refagent: not locked")
	}
	if subtle.ConstantTimeCompare(pass, a.pass) != 1 {
		a.rec(Event{Kind: "unlock"})
		return errors.New("refagent: wrong passphrase")
	}
	a.locked = false
	a.pass = nil
	a.rec(Event{Kind: "unlock", OK: true})
	return nil
}

func (a *Agent) Signers() ([]ssh.Signer, error) {
	a.mu.Lock()
	defer a.mu.Unlock()
	a.purge()
	if a.locked {
		return nil, errors.New("refagent: locked")
	}
	var out []ssh.Signer
	for _, id := range a.ids {
		if id.Signer != nil {
			out = append(out, id.Signer)
		}
	}
	return out, nil
}

// Extension echoes "echo@verif" requests (so that replies can be matched to
// callers) and reports every other extension as unsupported.
func (a *Agent) Extension(typ string, contents []byte) ([]byte, error) {
	a.mu.Lock()
	defer a.mu.Unlock()
	a.rec(Event{Kind: "ext", Comment: typ, Data: append([]byte(nil), contents...), OK: typ == "echo@verif"})
	if typ == "echo@verif" {
		return append([]byte("echo:"), contents...), nil
	}
	return nil, agent.ErrExtensionUnsupported
}
