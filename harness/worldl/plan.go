package worldl

import (
	"encoding/json"
	"fmt"
	"math"

	"verifsim/sim"
)

func pick[T any](r *sim.Rng, xs []T) T { return xs[r.Intn(len(xs))] }

var rpcCodes = []int{14, 14, 8, 13, 7, 3, 4, 2, 1, 5, 10, 16, 12}

func genReply(r *sim.Rng) LReply {
	switch r.Weighted([]int{50, 25, 6, 6, 13}) {
	case 0:
		rep := LReply{Kind: "ok", NCerts: pick(r, []int{1, 1, 1, 2, 3, 0, 1, 2, 16, 40}), Noise: r.Bool(0.2)}
		for i := 0; i < rep.NCerts; i++ {
			rep.Comments = append(rep.Comments, pick(r, []string{"", "touch", "c", "two words"}))
		}
		if r.Bool(0.3) {
			rep.Comments = nil
		}
		addSigs(r, &rep)
		return rep
	case 1:
		return LReply{Kind: "rpc_error", Code: pick(r, rpcCodes)}
	case 2:
		return LReply{Kind: "garbage"}
	case 3:
		return LReply{Kind: "empty"}
	}
	return LReply{Kind: "stall"}
}

// addSigs lets a CA sign the certificates of one reply with different keys / signature formats.
func addSigs(r *sim.Rng, rep *LReply) {
	if rep.NCerts >= 2 && (r.Bool(0.4) || rep.NCerts > 8) {
		for i := 0; i < rep.NCerts; i++ {
			rep.CASigs = append(rep.CASigs, pick(r, []string{"", "rsa-sha1", "rsa-sha1", "rsa-sha2-256", "rsa-sha2-512", "ecdsa"}))
		}
	}
}

func genL(prop string) func(r *sim.Rng, tier string) any {
	return func(r *sim.Rng, tier string) any {
		p := &LPlan{}
		ncas := r.Range(1, 3)
		p.Cfg = LCfg{NCAs: ncas, Retries: pick(r, []int{1, 2, 3, 3}), PerTryMs: pick(r, []int{500, 5000}), ParentSec: 600}
		switch r.Intn(3) {
		case 0: // one file with every CA
			var all []int
			for i := 0; i < ncas; i++ {
				all = append(all, i)
			}
			p.Cfg.Bundle = [][]int{all}
		default: // one file per CA
			for i := 0; i < ncas; i++ {
				p.Cfg.Bundle = append(p.Cfg.Bundle, []int{i})
			}
		}
		if r.Bool(0.1) {
			// short parent deadlines, and a context that is already over when Sign is called
			p.Cfg.ParentSec = pick(r, []int{1, 7, 20, 0, 0})
		}
		p.Cfg.ClientChain = r.Bool(0.3)
		if r.Bool(0.3) {
			// another TLS client of the process trusts CAs the signer is not configured with
			for ci := ncas; ci < 4; ci++ {
				if len(p.Cfg.Sibling) == 0 || r.Bool(0.4) {
					p.Cfg.Sibling = append(p.Cfg.Sibling, ci)
				}
			}
			p.Cfg.SiblingFirst = r.Bool(0.5)
			p.Cfg.SiblingDials = r.Bool(0.5)
		}
		n := r.Weighted([]int{6, 25, 30, 25, 14})
		if n == 0 && r.Bool(0.5) {
			p.Cfg.NilList = true
		}
		impostorRate, faultRate := 0.15, 0.45
		if prop == "C18" {
			impostorRate, faultRate = 0.55, 0.15
		}
		for i := 0; i < n; i++ {
			e := LEndpoint{Identity: "genuine", CA: r.Intn(ncas), TLS: pick(r, []string{"1.3", "1.3", "1.2"}), ClientAuth: pick(r, []string{"require", "require", "request", "request_hint_other", "none"}), Dial: "ok"}
			if r.Bool(0.5) {
				e.Name = fmt.Sprintf("10.0.0.%d", i+1)
			} else {
				e.Name = fmt.Sprintf("passthrough:///ca%d.sim", i)
			}
			if r.Bool(impostorRate) {
				e.Identity = pick(r, []string{"other_ca", "self_signed", "expired", "just_expired", "not_yet", "wrong_name", "client_ca"})
				if i > 0 && r.Bool(0.2) {
					e.Identity = pick(r, []string{"named_as_first", "cert_of_first"})
				}
				if len(p.Cfg.Sibling) > 0 && r.Bool(0.5) {
					e.Identity, e.CA = "sibling_ca", pick(r, p.Cfg.Sibling)
				}
				if r.Bool(0.25) {
					e.Identity, e.TLS = "genuine", "1.1"
				}
			}
			if r.Bool(faultRate * 0.4) {
				e.Dial = pick(r, []string{"refuse", "stall", "cut", "slow"})
				e.CutAfter = pick(r, []int{1, 100, 600, 2000, 5000})
			}
			ns := 1
			if r.Bool(faultRate) {
				ns = r.Range(1, 4)
			}
			for j := 0; j < ns; j++ {
				rep := genReply(r)
				if j == ns-1 && !r.Bool(faultRate) {
					rep = LReply{Kind: "ok", NCerts: pick(r, []int{1, 1, 2, 3})}
					for k := 0; k < rep.NCerts; k++ {
						rep.Comments = append(rep.Comments, pick(r, []string{"", "touch", "cmt"}))
					}
					addSigs(r, &rep)
				}
				e.Script = append(e.Script, rep)
			}
			p.Endpoints = append(p.Endpoints, e)
		}
		if r.Bool(0.3) {
			p.ReqShape = pick(r, []string{"dup_principals", "spaced_principals", "empty_principal", "no_principals", "unsorted_principals", "odd_fields", "critical_options"})
		}
		if r.Bool(0.25) {
			p.Calls = r.Range(2, 3)
			p.GapSec = pick(r, []int{0, 0, 1, 30, 600})
			for i := range p.Endpoints {
				// an endpoint that is unreachable during the first call(s) and healthy again afterwards
				if r.Bool(0.5) {
					if p.Endpoints[i].Dial == "ok" && p.Endpoints[i].Identity == "genuine" && r.Bool(0.5) {
						p.Endpoints[i].Dial = pick(r, []string{"refuse", "refuse", "stall"})
					}
					if p.Endpoints[i].Dial == "refuse" || p.Endpoints[i].Dial == "stall" {
						p.Endpoints[i].Heal = r.Range(1, p.Calls-1)
					}
				}
			}
		}
		if prop == "C18" && r.Bool(0.1) {
			// the RA's client certificate lapses between two Sign calls
			p.Cfg.ClientExpires = true
			p.Calls = 2
			p.GapSec = 31 * 365 * 86400
		}
		if prop == "C17" {
			for i := 0; i < r.Range(2, 8); i++ {
				max := int64(pick(r, []int{1, 100, 15000, 60000, 3600000}))
				base := int64(float64(max) * pick(r, []float64{0, 0, 0.001, 0.1, 0.5, 1}))
				p.Backoffs = append(p.Backoffs, LBackoff{BaseMs: base, MaxMs: max, Mult: pick(r, []float64{1, 1.0001, 1.6, 2, 3, 10, 1e6, math.MaxFloat64 / 4}),
					Jitter: pick(r, []float64{0, 0.2, 0.5, 1}), Attempt: pick(r, []uint{0, 1, 2, 3, 10, 64, 646, 647, 1000, 1 << 20, 1 << 31, 1<<32 - 1}),
					AtSec: int64(r.Intn(100000))})
			}
		}
		return p
	}
}

func shrinkL(raw json.RawMessage) []json.RawMessage {
	var p LPlan
	if json.Unmarshal(raw, &p) != nil {
		return nil
	}
	var out []json.RawMessage
	clone := func() LPlan {
		var q LPlan
		json.Unmarshal(raw, &q)
		return q
	}
	emit := func(q LPlan) { b, _ := json.Marshal(q); out = append(out, b) }
	if len(p.Backoffs) > 0 && len(p.Endpoints) > 0 {
		q := clone()
		q.Endpoints = nil
		emit(q)
		q = clone()
		q.Backoffs = nil
		emit(q)
	}
	for _, rg := range sim.DropEach(len(p.Backoffs)) {
		q := clone()
		q.Backoffs = append(append([]LBackoff(nil), p.Backoffs[:rg[0]]...), p.Backoffs[rg[1]:]...)
		emit(q)
	}
	for i := range p.Endpoints {
		q := clone()
		q.Endpoints = append(append([]LEndpoint(nil), p.Endpoints[:i]...), p.Endpoints[i+1:]...)
		emit(q)
	}
	if p.Cfg.ClientChain {
		q := clone()
		q.Cfg.ClientChain = false
		emit(q)
	}
	if p.Calls > 2 {
		q := clone()
		q.Calls = 2
		emit(q)
	}
	for i, e := range p.Endpoints {
		if len(e.Script) > 1 {
			q := clone()
			q.Endpoints[i].Script = e.Script[:1]
			emit(q)
			q = clone()
			q.Endpoints[i].Script = e.Script[1:]
			emit(q)
		}
		if e.Dial != "ok" {
			q := clone()
			q.Endpoints[i].Dial = "ok"
			q.Endpoints[i].Heal = 0
			emit(q)
		}
		if e.ClientAuth != "none" {
			q := clone()
			q.Endpoints[i].ClientAuth = "none"
			emit(q)
		}
	}
	return out
}

// Specs of the CA link world.
var Specs = []*sim.Spec{
	{Property: "C17", World: "L", Generate: genL("C17"), Execute: execL, Shrink: shrinkL},
	{Property: "C18", World: "L", Generate: genL("C18"), Execute: execL, Shrink: shrinkL},
}
