package sim

import (
	"fmt"
	"testing"
	"testing/synctest"
	"time"
)

// Epoch is the instant at which every bubble's simulated clock starts.
var Epoch = time.Date(2000, 1, 1, 0, 0, 0, 0, time.UTC)

// InBubble runs f inside a fresh synctest bubble (fake clock starting at Epoch,
// advancing only when every goroutine of the bubble is durably blocked). It
// returns a description of a panic or bubble deadlock, or "".
func InBubble(t *testing.T, f func()) (failure string) {
	defer func() {
		if r := recover(); r != nil {
			failure = fmt.Sprintf("bubble: %v", r)
		}
	}()
	synctest.Test(t, func(t *testing.T) {
		defer func() {
			if r := recover(); r != nil {
				failure = fmt.Sprintf("panic in bubble root: %v", r)
			}
		}()
		f()
	})
	return failure
}

// SimNow returns seconds since Epoch on the current (bubble) clock.
func SimNow() float64 { return time.Since(Epoch).Seconds() }
