#!/usr/bin/env python3
"""Regenerates /verif/MANIFEST.json from the table below (development aid)."""
import json, os, subprocess
V = os.path.dirname(os.path.dirname(os.path.abspath(__file__)))

CHECKS = {
 "C01": ("exploration", "5.C01", "seeded search over simulated worlds (users x key-directory states x untrusted-agent behaviours x handler lists x run histories) of the real gensign.Run + regular handler against a scripted forwarded agent and CA in one process; invariant checked on every run: no CA call / agent add without a verifying signature over a fresh >=16-byte challenge under a key registered for the login name; every plan executed twice in fresh bubbles to expose clock-derived challenges",
         "trusts ssh.PublicKey.Verify and the x/crypto wire codec; entropy left real on purpose; file system real (states set, no I/O faults); sampling, not proof",
         "deterministic simulation: scripted untrusted agent + invariant over recorded run history"),
 "C02": ("exploration", "5.C02", "every signing request received by the scripted CA in any simulated run (odd strings, all key-identifier spellings, faults) is compared with an independent reading of the property: principal = LOGNAME, validity, five extensions, configured slot, fresh RA key equal to the key added to the agent, KeyID decoded with encoding/json and with keyid.Unmarshal",
         "expected extension set and KeyID field names are hard-coded in the oracle from README/property text; sampling",
         "deterministic simulation: invariant at the simulated CA node"),
 "C03": ("exploration", "5.C03", "histories of 1..6 successful and failing runs on one simulated agent with pre-existing near-miss identities, clock jumps between runs and agent/CA faults; after each run the agent model is inspected directly: new key and all returned certificates present and able to sign, finite lifetimes >= validity, one generation only, foreign identities untouched, early failures keep old certificates",
         "agent model (refagent) is the specification of an ssh-agent (lifetimes on the simulated clock, same-blob replace); sampling",
         "deterministic simulation: history oracle over agent model state, simulated clock"),
 "C04": ("fault_enumeration", "5.C04", "per seeded scenario every single-fault placement is enumerated completely: each agent request index x 9 reply/connection faults, each signer call x {error, panic}, each stub handler method x panic; result kind must match the phase in which the fault fired, success only with all certificates delivered, no certificate without CA signature, no escaping panic",
         "scenarios are sampled (handlers, certificates per request, prior runs); within a scenario the single-fault space is exhaustive; malformed (non-refusal) replies may map to the panic kind (not decided by the property)",
         "fault-point enumeration inside the simulated world"),
 "C12": ("exploration", "5.C12", "seeded byte streams (frame grammar: every code, zero/one-byte frames, both add-hardware-certificate encodings, truncated and corrupted bodies, oversize prefixes, truncated key constraints) delivered through a scripted transport with 1-byte chunking, EOF / read error / write error at chosen offsets to the real yubiagent.ServeAgent serving a recording stub or the full server->shim->agent-model stack; replies attributed to request frames through transport positions",
         "expected replies of standard requests rely on the x/crypto wire codec; allocation oracle uses runtime.MemStats (8 MiB threshold); sampling",
         "deterministic simulation: stream faults on a scripted transport"),
}
NA = {
 "C05": "pure function of its input (KeyID Marshal/Unmarshal): no schedule, clock, transport, fault or history for a simulator to control; deciding it means generating inputs, which is another technique (DESIGN.md section 6)",
 "C14": "pure function of injected strings (csr.NewReqParam); the only nondeterminism is an entropy source that cannot fail; world G builds its parameters through it and C02 checks what reaches the CA, but totality over arbitrary command text is input generation (DESIGN.md section 6)",
 "C15": "pure function (message encode/decode round trip): nothing for the simulator to schedule or fail (DESIGN.md section 6)",
 "C16": "pure functions of bytes (lenient certificate parser, PEM bundles, ModHex); the parser never consults the clock (DESIGN.md section 6)",
 "C19": "pure total function of a KeyID and one option (certificate type/label/principal suffix) (DESIGN.md section 6)",
}
PENDING = {k: "check not built yet (in progress, see DESIGN.md section 5); not claimed until it runs" for k in
           ["C06", "C07", "C08", "C09", "C10", "C11", "C13", "C17", "C18", "C20"]}

def main():
    checks = []
    for pid, (level, ref, text, note, tech) in sorted(CHECKS.items()):
        checks.append({
            "property_id": pid,
            "quick_cmd": "./check %s" % pid,
            "thorough_cmd": "VERIF_TIER=thorough ./check %s" % pid,
            "evidence_file": "/verif/evidence/%s.json" % pid,
            "replay_cmd_template": "./check %s --replay {path}" % pid,
            "engine": "detsim",
            "level_claimed": {"category": level, "text": text, "design_ref": ref},
            "level_note": note,
            "technique": tech,
        })
    na = [{"property_id": k, "reason": v} for k, v in sorted({**NA, **PENDING}.items()) if k not in CHECKS]
    hooks = subprocess.run(["git", "-C", "/repo", "log", "--format=%H", "--grep=^verif:"], capture_output=True, text=True).stdout.split()
    man = {
        "version": 1,
        "setup_cmd": "./tools/setup.sh",
        "hooks": {
            "guard": "verif",
            "enable": "go build tag: go1.26.8 test -c -tags verif (checks add -race, -overlay and a patched x/crypto copy for the scheduled worlds)",
            "baseline_off_cmd": "cd /repo && GOFLAGS=-mod=mod GOPROXY=off GOSUMDB=off go test -json -vet=off -count=1 -timeout 25m ./...",
            "source_commits": hooks,
            "add_only": True,
        },
        "engines": [{"name": "detsim", "path": "/verif/harness", "serves_properties": sorted(CHECKS),
                     "kind_free_text": "deterministic simulation with fault injection: seeded plans (world, workload, faults, schedule) executed against the real packages inside one process (synctest clock, simulated transports, reference agent model, token scheduler), oracles over recorded histories, minimised replay files"}],
        "checks": checks,
        "not_applicable": na,
        "notes": "All checks rebuild the harness against /repo's working tree (replace directive) with -tags verif. Exit 0 held / 1 VIOLATION with replay / 2 infrastructure. See DESIGN.md.",
    }
    json.dump(man, open(os.path.join(V, "MANIFEST.json"), "w"), indent=1)
    print("wrote MANIFEST.json with %d checks, %d not applicable" % (len(checks), len(na)))

if __name__ == "__main__":
    main()
