// Package simconn provides the simulated transports of the unscheduled worlds:
// a scripted byte-stream endpoint (plan-driven chunking, EOF and errors at chosen
// offsets) and a chunking wrapper around an in-memory duplex connection.
package simconn

import (
	"errors"
	"io"
	"net"
)

// ErrInjected is the error returned by injected read / write faults.
var ErrInjected = errors.New("simconn: injected I/O error")

// Script is an io.ReadWriter that plays a fixed input stream in chunks and
// records everything written to it.
type Script struct {
	In     []byte
	Chunks []int // read sizes, cycled; empty means unlimited
	// EOFWithData: the Read that delivers the last bytes also reports io.EOF
	EOFWithData bool
	ReadErrAt   int // offset at which Read fails with ErrInjected (<0: never)
	WriteErrAt  int // index of the Write call that fails (<0: never)

	Pos       int
	Out       []byte
	Writes    int
	Reads     int
	chunkIdx  int
	ReadErrs  int
	WriteErrs int
}

func (s *Script) Read(p []byte) (int, error) {
	s.Reads++
	if s.ReadErrAt >= 0 && s.Pos >= s.ReadErrAt {
		s.ReadErrs++
		return 0, ErrInjected
	}
	if s.Pos >= len(s.In) {
		return 0, io.EOF
	}
	n := len(p)
	if len(s.Chunks) > 0 {
		c := s.Chunks[s.chunkIdx%len(s.Chunks)]
		s.chunkIdx++
		if c < 1 {
			c = 1
		}
		if c < n {
			n = c
		}
	}
	if rem := len(s.In) - s.Pos; rem < n {
		n = rem
	}
	if s.ReadErrAt >= 0 && s.Pos+n > s.ReadErrAt {
		n = s.ReadErrAt - s.Pos
	}
	copy(p, s.In[s.Pos:s.Pos+n])
	s.Pos += n
	if s.EOFWithData && s.Pos >= len(s.In) && n > 0 && !(s.ReadErrAt >= 0 && s.Pos >= s.ReadErrAt) {
		return n, io.EOF // the last bytes and the end of the stream in one call, as io.Reader allows
	}
	return n, nil
}

func (s *Script) Write(p []byte) (int, error) {
	if s.WriteErrAt >= 0 && s.Writes >= s.WriteErrAt {
		s.Writes++
		s.WriteErrs++
		return 0, ErrInjected
	}
	s.Writes++
	s.Out = append(s.Out, p...)
	return len(p), nil
}

// Chunked wraps a net.Conn so that reads return at most the next planned size
// and writes are split into planned sizes (short reads and split writes).
type Chunked struct {
	net.Conn
	ReadSizes  []int
	WriteSizes []int
	ri, wi     int
	Splits     int
}

func (c *Chunked) Read(p []byte) (int, error) {
	if len(c.ReadSizes) > 0 && len(p) > 0 {
		n := c.ReadSizes[c.ri%len(c.ReadSizes)]
		c.ri++
		if n < 1 {
			n = 1
		}
		if n < len(p) {
			p = p[:n]
		}
	}
	return c.Conn.Read(p)
}

func (c *Chunked) Write(p []byte) (int, error) {
	if len(c.WriteSizes) == 0 {
		return c.Conn.Write(p)
	}
	total := 0
	for len(p) > 0 {
		n := c.WriteSizes[c.wi%len(c.WriteSizes)]
		c.wi++
		if n < 1 {
			n = 1
		}
		if n > len(p) {
			n = len(p)
		} else if n < len(p) {
			c.Splits++
		}
		m, err := c.Conn.Write(p[:n])
		total += m
		if err != nil {
			return total, err
		}
		p = p[n:]
	}
	return total, nil
}
