// Package simtime stands in for package time inside the code under test in scheduled runs (the driver rewrites the
// `import "time"` of agent/shimagent and agent/yubiagent through a build overlay, as it does for sync). Everything is
// the real package, except that a callback timer (AfterFunc) created by a task of a scheduled run becomes a task of
// that run: the scheduler decides when it fires - any moment after its creation, since a scheduled run has no clock -
// and its callback runs under the scheduler like every other task, so that what it shares with client operations is
// seen by the race detector and by the interleaving search. Sleep in a scheduled run is a scheduling point.
// Channel timers: After and NewTimer created by a task of a scheduled run deliver on their channel when the scheduler
// picks their (daemon) task - like AfterFunc, any moment after their creation; a timer the code under test re-arms with
// Reset, tickers (NewTicker, Tick) and context deadlines stay real and are counted as time sources the scheduler does
// not control (a run that can only go on when one of them fires is left to the wall-clock guard, never judged).
package simtime

import (
	"fmt"
	"time"

	"verifsim/sched"
)

type (
	Duration   = time.Duration
	Location   = time.Location
	Month      = time.Month
	ParseError = time.ParseError
	Ticker     = time.Ticker
	Time       = time.Time
	Timer      = time.Timer
	Weekday    = time.Weekday
)

const (
	Layout      = time.Layout
	ANSIC       = time.ANSIC
	UnixDate    = time.UnixDate
	RubyDate    = time.RubyDate
	RFC822      = time.RFC822
	RFC822Z     = time.RFC822Z
	RFC850      = time.RFC850
	RFC1123     = time.RFC1123
	RFC1123Z    = time.RFC1123Z
	RFC3339     = time.RFC3339
	RFC3339Nano = time.RFC3339Nano
	Kitchen     = time.Kitchen
	Stamp       = time.Stamp
	StampMilli  = time.StampMilli
	StampMicro  = time.StampMicro
	StampNano   = time.StampNano
	DateTime    = time.DateTime
	DateOnly    = time.DateOnly
	TimeOnly    = time.TimeOnly

	Nanosecond  = time.Nanosecond
	Microsecond = time.Microsecond
	Millisecond = time.Millisecond
	Second      = time.Second
	Minute      = time.Minute
	Hour        = time.Hour

	January   = time.January
	February  = time.February
	March     = time.March
	April     = time.April
	May       = time.May
	June      = time.June
	July      = time.July
	August    = time.August
	September = time.September
	October   = time.October
	November  = time.November
	December  = time.December

	Sunday    = time.Sunday
	Monday    = time.Monday
	Tuesday   = time.Tuesday
	Wednesday = time.Wednesday
	Thursday  = time.Thursday
	Friday    = time.Friday
	Saturday  = time.Saturday
)

var (
	Local = time.Local
	UTC   = time.UTC
)

// After: inside a scheduled run the channel is served by a daemon task (it fires when the scheduler picks it).
func After(d Duration) <-chan Time {
	s := sched.Active()
	if s == nil || s.Over() || s.Current() == nil {
		return time.After(d)
	}
	c := make(chan Time, 1)
	n := s.Stamp()
	s.GoTimer(fmt.Sprintf("after@%d(%v)", n, d), func() {
		if s.Over() {
			return
		}
		bump()
		s.Note("timer-fires", d.String())
		select {
		case c <- time.Now():
		default:
		}
	})
	return c
}
func Date(y int, m Month, d, h, mi, s, ns int, l *Location) Time {
	return time.Date(y, m, d, h, mi, s, ns, l)
}
func FixedZone(name string, offset int) *Location { return time.FixedZone(name, offset) }
func LoadLocation(name string) (*Location, error) { return time.LoadLocation(name) }
func LoadLocationFromTZData(n string, d []byte) (*Location, error) {
	return time.LoadLocationFromTZData(n, d)
}
func NewTicker(d Duration) *Ticker {
	timeSource()
	return time.NewTicker(d)
}

// NewTimer: inside a scheduled run the timer's channel is served by a daemon task, unless the code under test stopped
// the timer before the scheduler picked that task. Stop and Reset act on a real timer that is armed for 1000 h: a
// timer that is re-armed with Reset fires in real time only (counted as an uncontrolled time source).
func NewTimer(d Duration) *Timer {
	s := sched.Active()
	if s == nil || s.Over() || s.Current() == nil {
		return time.NewTimer(d)
	}
	s.AddTimeSource() // Reset cannot be intercepted: be careful with verdicts about waiting
	t := time.NewTimer(never)
	c := make(chan Time, 1)
	t.C = c
	n := s.Stamp()
	s.GoTimer(fmt.Sprintf("timer@%d(%v)", n, d), func() {
		if s.Over() {
			return
		}
		if t.Stop() { // still armed: the code under test did not stop it
			bump()
			s.Note("timer-fires", d.String())
			select {
			case c <- time.Now():
			default:
			}
		}
	})
	return t
}
func Now() Time                                { return time.Now() }
func Parse(layout, value string) (Time, error) { return time.Parse(layout, value) }
func ParseDuration(s string) (Duration, error) { return time.ParseDuration(s) }
func ParseInLocation(l, v string, loc *Location) (Time, error) {
	return time.ParseInLocation(l, v, loc)
}
func Since(t Time) Duration { return time.Since(t) }
func Tick(d Duration) <-chan Time {
	timeSource()
	return time.Tick(d)
}
func Unix(sec, nsec int64) Time { return time.Unix(sec, nsec) }
func UnixMicro(usec int64) Time { return time.UnixMicro(usec) }
func UnixMilli(msec int64) Time { return time.UnixMilli(msec) }
func Until(t Time) Duration     { return time.Until(t) }

func timeSource() {
	if s := sched.Active(); s != nil && !s.Over() {
		s.AddTimeSource()
	}
}

// Fired counts the callback timers that the scheduler fired in the current process (read by the worlds per run).
var fired int

// Fired returns the counter.
//
//go:norace
func Fired() int { return fired }

//go:norace
func bump() { fired++ }

// never is how long the stand-in real timer is set for: it exists for its Stop / Reset bookkeeping only.
const never = 1000 * time.Hour

// AfterFunc: inside a scheduled run the callback becomes a (daemon) task that fires when the scheduler picks it,
// unless the code under test stopped the timer before.
func AfterFunc(d Duration, f func()) *Timer {
	s := sched.Active()
	if s == nil || s.Over() || s.Current() == nil {
		return time.AfterFunc(d, f)
	}
	t := time.AfterFunc(never, func() {})
	n := s.Stamp()
	s.GoTimer(fmt.Sprintf("timer@%d(%v)", n, d), func() {
		if s.Over() {
			return
		}
		if t.Stop() { // still armed: the code under test did not stop it
			bump()
			s.Note("timer-fires", d.String())
			f()
		}
	})
	return t
}

// Sleep: a scheduling point in a scheduled run (there is no clock to wait for).
func Sleep(d Duration) {
	if s := sched.Active(); s != nil && !s.Over() && s.Current() != nil {
		s.Yield("sleep", d.String())
		return
	}
	time.Sleep(d)
}
