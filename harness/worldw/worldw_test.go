package worldw

import (
	"testing"

	"verifsim/sim"
)

func TestWorker(t *testing.T) { sim.RunWorker(t, []*sim.Spec{SpecC12, SpecC13}) }
