package sched

import (
	"fmt"
	"reflect"
	"testing"
)

// producers and consumers over an unbuffered and a buffered channel, every operation through a real blocking region
func chanRun(seed uint64) (order []string, choices []int, s *Sched) {
	s = New(Strategy{Kind: "random", Seed: seed}, 100000)
	unbuf := make(chan int)
	buf := make(chan int, 2)
	note := func(x string) { order = appendNoRace(order, x) }
	for p := 0; p < 3; p++ {
		p := p
		s.Go(fmt.Sprintf("prod%d", p), false, func() {
			for i := 0; i < 3; i++ {
				h := s.EnterReal("send")
				unbuf <- p*10 + i
				s.ExitReal(h)
				s.Yield("sent", "")
				h = s.EnterReal("send")
				buf <- p*10 + i
				s.ExitReal(h)
			}
		})
	}
	for c := 0; c < 4; c++ {
		c := c
		s.Go(fmt.Sprintf("cons%d", c), true, func() {
			for {
				// (a select with several ready cases is decided by the Go runtime at random: one channel per consumer)
				ch, tag := unbuf, "u"
				if c%2 == 1 {
					ch, tag = buf, "b"
				}
				h := s.EnterReal("select")
				select {
				case v := <-ch:
					s.ExitReal(h)
					if s.Over() {
						return
					}
					note(fmt.Sprintf("c%d:%s%d", c, tag, v))
				}
				s.Yield("got", "")
			}
		})
	}
	s.Run()
	return order, s.Choices, s
}

// TestRealRegionsDeterministic: the same strategy gives the same execution, whatever the Go runtime does.
func TestRealRegionsDeterministic(t *testing.T) {
	for seed := uint64(1); seed <= 40; seed++ {
		o1, c1, s1 := chanRun(seed)
		o2, c2, _ := chanRun(seed)
		if s1.Deadlock || s1.StepCap {
			t.Fatalf("seed %d: aborted: %v", seed, s1.Stuck)
		}
		if !reflect.DeepEqual(c1, c2) {
			t.Fatalf("seed %d: decisions differ between two executions", seed)
		}
		if !reflect.DeepEqual(o1, o2) {
			t.Fatalf("seed %d: deliveries differ between two executions:\n%v\n%v", seed, o1, o2)
		}
		if s1.RealOps == 0 || s1.RealParked == 0 {
			t.Fatalf("seed %d: no real blocking region was exercised (%d ops, %d parked)", seed, s1.RealOps, s1.RealParked)
		}
	}
}

// TestRealRegionDeadlock: a receive nobody answers, with another task waiting for a lock-like object the receiver
// "holds", is a deadlock - reported, not a hang.
func TestRealRegionDeadlock(t *testing.T) {
	s := New(Strategy{Kind: "random", Seed: 7}, 100000)
	never := make(chan int)
	gate := &struct{ n string }{"gate"}
	s.Go("holder", false, func() {
		h := s.EnterReal("recv")
		<-never
		s.ExitReal(h)
	})
	s.Go("waiter", false, func() { s.Wait(gate, "lockwait") })
	s.Run()
	if !s.Deadlock {
		t.Fatalf("deadlock not reported")
	}
	found := false
	for _, x := range s.Stuck {
		if x == "holder blocked in a channel operation [chan receive]" {
			found = true
		}
	}
	if !found {
		t.Fatalf("stuck description: %v", s.Stuck)
	}
}

//go:norace
func appendNoRace(l []string, x string) []string {
	n := make([]string, len(l)+1)
	for i := range l {
		n[i] = l[i]
	}
	n[len(l)] = x
	return n
}
