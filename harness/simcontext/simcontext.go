// Package simcontext stands in for package context inside the code under test in scheduled runs (import rewritten by
// cmd/overlaygen). Everything is the real package; contexts with a deadline are counted as time sources the scheduler
// does not control, so that a scheduled run which can only go on when such a deadline passes is never judged a deadlock.
package simcontext

import (
	"context"
	"time"

	"verifsim/sched"
)

type (
	Context         = context.Context
	CancelFunc      = context.CancelFunc
	CancelCauseFunc = context.CancelCauseFunc
)

var (
	Canceled         = context.Canceled
	DeadlineExceeded = context.DeadlineExceeded
)

func note() {
	if s := sched.Active(); s != nil && !s.Over() {
		s.AddTimeSource()
	}
}

func Background() Context                                  { return context.Background() }
func TODO() Context                                        { return context.TODO() }
func WithCancel(p Context) (Context, CancelFunc)           { return context.WithCancel(p) }
func WithCancelCause(p Context) (Context, CancelCauseFunc) { return context.WithCancelCause(p) }
func WithValue(p Context, k, v any) Context                { return context.WithValue(p, k, v) }
func WithoutCancel(p Context) Context                      { return context.WithoutCancel(p) }
func Cause(c Context) error                                { return context.Cause(c) }
func AfterFunc(c Context, f func()) (stop func() bool)     { return context.AfterFunc(c, f) }
func WithDeadline(p Context, d time.Time) (Context, CancelFunc) {
	note()
	return context.WithDeadline(p, d)
}
func WithTimeout(p Context, d time.Duration) (Context, CancelFunc) {
	note()
	return context.WithTimeout(p, d)
}
func WithDeadlineCause(p Context, d time.Time, cause error) (Context, CancelFunc) {
	note()
	return context.WithDeadlineCause(p, d, cause)
}
func WithTimeoutCause(p Context, d time.Duration, cause error) (Context, CancelFunc) {
	note()
	return context.WithTimeoutCause(p, d, cause)
}
