package sched

import (
	"os"
	"testing"
	"time"
)

func countFDs() int {
	es, _ := os.ReadDir("/proc/self/fd")
	return len(es)
}

// TestNoDescriptorLeak: a clean run with a daemon parked for ever must give every pipe back.
func TestNoDescriptorLeak(t *testing.T) {
	before := countFDs()
	for i := 0; i < 200; i++ {
		s := New(Strategy{Kind: "random", Seed: uint64(i)}, 10000)
		gate := &struct{ n string }{"gate"}
		s.Go("daemon", true, func() {
			for {
				s.Wait(gate, "park")
				if s.Over() {
					return
				}
			}
		})
		s.Go("worker", false, func() {
			s.Yield("x", "y")
			s.Go("child", false, func() { s.Yield("a", "b") })
		})
		s.Run()
	}
	time.Sleep(200 * time.Millisecond)
	after := countFDs()
	if after > before+8 {
		t.Fatalf("descriptor leak: %d before, %d after 200 runs", before, after)
	}
}
